#!/bin/sh
# usage: sched/build.sh <outdir> [repo]      builds vsched (plain) and vsched.race with the mutex-shim overlay
#        sched/build.sh warm                 builds both once into .build/warm to warm the Go build cache
# The overlay is regenerated from the repository's current working tree on every call:
#   - every non-test file of package template that imports "sync" is replaced by a copy importing the shim,
#   - the shim package is added as the virtual package <repo>/verifsync.
set -u
V=$(cd "$(dirname "$0")/.." && pwd)
cd "$V" || exit 2
export GOFLAGS=-mod=mod GOPROXY=off GOSUMDB=off GOTOOLCHAIN=local
OUT=${1:?outdir}; REPO=${2:-/repo}
[ "$OUT" = warm ] && OUT=.build/warm
mkdir -p "$OUT/ovl"
OUT=$(cd "$OUT" && pwd)
{
  printf '{"Replace":{'
  first=1
  for f in "$REPO"/template/*.go; do
    case "$f" in *_test.go) continue;; esac
    if grep -q '^[[:space:]]*"sync"$' "$f"; then
      g="$OUT/ovl/$(basename "$f")"
      sed 's#^\([[:space:]]*\)"sync"$#\1sync "github.com/google/safehtml/verifsync"#' "$f" > "$g"
      [ $first = 1 ] || printf ','
      first=0
      printf '"%s":"%s"' "$f" "$g"
    fi
  done
  [ $first = 1 ] || printf ','
  printf '"%s/verifsync/verifsync.go":"%s/sched/verifsync/verifsync.go"' "$REPO" "$V"
  printf '}}\n'
} > "$OUT/overlay.json"
MODFLAG=""
if [ "$REPO" != "/repo" ]; then
  sed "s#=> /repo#=> ${REPO}#" go.mod > "$OUT/alt.mod"; cp go.sum "$OUT/alt.sum"
  MODFLAG="-modfile=$OUT/alt.mod"
fi
go build $MODFLAG -overlay "$OUT/overlay.json" -o "$OUT/vsched" ./cmd/vsched || exit 2
go build $MODFLAG -race -overlay "$OUT/overlay.json" -o "$OUT/vsched.race" ./cmd/vsched || exit 2
echo "built $OUT/vsched $OUT/vsched.race"
