// Package verifsync is injected into github.com/google/safehtml at build time
// (go build -overlay) in place of package sync for package template. It is both
// the mutex shim and the controlled scheduler (engine E4).
//
// Rules (established by a spike, see DESIGN.md §2 E4):
//   - all scheduler state is touched only inside //go:norace functions and lives
//     in fixed arrays / slices (no maps, no closures), so the race detector never
//     sees it;
//   - the baton is handed between goroutines with raw read/write syscalls on
//     pipes, which the race detector does not model: hand-offs add NO
//     happens-before edges, so two accesses ordered only by the scheduler are
//     still reported as a race;
//   - Mutex also locks a real sync.Mutex, so the program's own synchronisation
//     does create happens-before edges;
//   - the hooks are inert unless a run is active.
package verifsync

import (
	"sync"
	"syscall"
	"unsafe"
)

// Mutex replaces sync.Mutex in the instrumented package.
type Mutex struct {
	real sync.Mutex
	held bool
}

// RWMutex replaces sync.RWMutex (a refactoring may switch the name space lock to it).
type RWMutex struct {
	real    sync.RWMutex
	writer  bool
	readers int
}

// The rest of package sync is passed through unchanged, so the instrumented package keeps compiling
// whatever it uses.
type (
	WaitGroup = sync.WaitGroup
	Once      = sync.Once
	Map       = sync.Map
	Pool      = sync.Pool
	Cond      = sync.Cond
	Locker    = sync.Locker
)

func NewCond(l Locker) *Cond { return sync.NewCond(l) }

func OnceFunc(f func()) func() { return sync.OnceFunc(f) }

const (
	MaxThreads = 6
	MaxPoints  = 4096
)

// Kinds of scheduling point.
const (
	KStart = iota
	KLock
	KUnlock
	KWrite
	KCall
	KDone
)

// PointRec is one scheduling decision of an execution.
type PointRec struct {
	Thread int8             // thread that reached the point
	Kind   int8             //
	NEn    int8             // number of enabled threads
	En     [MaxThreads]int8 // enabled threads in canonical order (running first if enabled, then ascending)
	Choice int8             // index into En that was taken
	RunEn  bool             // the thread that was running is still enabled (taking another one is a preemption)
}

var (
	active    bool
	nthreads  int
	status    [MaxThreads]int8 // 0 not started / runnable, 1 finished
	waitMutex [MaxThreads]*Mutex
	waitRW    [MaxThreads]*RWMutex
	waitRWw   [MaxThreads]bool // waiting for the write side
	current   int
	pipes     [MaxThreads + 1][2]int
	schedule  []int8
	trace     [MaxPoints]PointRec
	ntrace    int
	deadlock  bool
	overflow  bool
	aborting  bool
	badChoice bool
	pipesOpen bool
)

//go:norace
func wake(t int) {
	var b [1]byte
	for {
		n, _, e := syscall.Syscall(syscall.SYS_WRITE, uintptr(pipes[t][1]), uintptr(unsafe.Pointer(&b[0])), 1)
		if n == 1 {
			return
		}
		if e != syscall.EINTR && e != syscall.EAGAIN {
			panic("verifsync: pipe write failed")
		}
	}
}

//go:norace
func wait(t int) {
	var b [1]byte
	for {
		n, _, e := syscall.Syscall(syscall.SYS_READ, uintptr(pipes[t][0]), uintptr(unsafe.Pointer(&b[0])), 1)
		if n == 1 {
			return
		}
		if e != syscall.EINTR && e != syscall.EAGAIN {
			panic("verifsync: pipe read failed")
		}
	}
}

type abortSignal struct{}

// decide records a scheduling point reached by thread me and transfers control.
//
//go:norace
func decide(me int, kind int) {
	var rec PointRec
	rec.Thread, rec.Kind = int8(me), int8(kind)
	// enabled set in canonical order
	meEnabled := status[me] == 0 && (waitMutex[me] == nil || !waitMutex[me].held) && rwFree(me)
	n := 0
	if meEnabled {
		rec.En[n] = int8(me)
		n++
	}
	for t := 0; t < nthreads; t++ {
		if t == me || status[t] != 0 {
			continue
		}
		if waitMutex[t] != nil && waitMutex[t].held {
			continue
		}
		if !rwFree(t) {
			continue
		}
		rec.En[n] = int8(t)
		n++
	}
	rec.NEn, rec.RunEn = int8(n), meEnabled
	if n == 0 {
		// nobody can run
		fin := true
		for t := 0; t < nthreads; t++ {
			if status[t] == 0 {
				fin = false
			}
		}
		if !fin {
			deadlock = true
		}
		if ntrace < MaxPoints {
			trace[ntrace] = rec
			ntrace++
		}
		wake(nthreads) // controller
		if status[me] == 0 {
			wait(me)
			if aborting {
				panic(abortSignal{})
			}
		}
		return
	}
	choice := 0
	if ntrace < len(schedule) {
		choice = int(schedule[ntrace])
		if choice >= n {
			badChoice = true
			choice = 0
		}
	}
	rec.Choice = int8(choice)
	if ntrace < MaxPoints {
		trace[ntrace] = rec
		ntrace++
	} else {
		overflow = true
	}
	next := int(rec.En[choice])
	if next != me {
		current = next
		wake(next)
		if status[me] == 0 {
			wait(me)
			if aborting {
				panic(abortSignal{})
			}
		}
	}
}

// rwFree: thread t is not waiting for an RWMutex, or the side it wants is available.
//
//go:norace
func rwFree(t int) bool {
	m := waitRW[t]
	if m == nil {
		return true
	}
	if waitRWw[t] {
		return !m.writer && m.readers == 0
	}
	if m.writer {
		return false
	}
	// sync.RWMutex gives a blocked Lock call priority over later RLock calls: a thread that waits for the write
	// side keeps new readers out (this is what makes a recursive read lock deadlock).
	for u := 0; u < MaxThreads; u++ {
		if u != t && waitRW[u] == m && waitRWw[u] {
			return false
		}
	}
	return true
}

//go:norace
func (m *RWMutex) Lock() {
	if active {
		me := current
		waitRW[me], waitRWw[me] = m, true
		decide(me, KLock)
		waitRW[me] = nil
		m.writer = true
	}
	m.real.Lock()
}

//go:norace
func (m *RWMutex) Unlock() {
	m.real.Unlock()
	if active {
		m.writer = false
		decide(current, KUnlock)
	}
}

//go:norace
func (m *RWMutex) RLock() {
	if active {
		me := current
		waitRW[me], waitRWw[me] = m, false
		decide(me, KLock)
		waitRW[me] = nil
		m.readers++
	}
	m.real.RLock()
}

//go:norace
func (m *RWMutex) RUnlock() {
	m.real.RUnlock()
	if active {
		m.readers--
		decide(current, KUnlock)
	}
}

// TryLock and friends are not scheduling points.
func (m *Mutex) TryLock() bool { return m.real.TryLock() }

// RLocker mirrors sync.RWMutex.RLocker.
func (m *RWMutex) RLocker() Locker { return (*rlocker)(m) }

type rlocker RWMutex

func (r *rlocker) Lock()   { (*RWMutex)(r).RLock() }
func (r *rlocker) Unlock() { (*RWMutex)(r).RUnlock() }

// Lock is a scheduling point; the thread is enabled only while the mutex is free.
//
//go:norace
func (m *Mutex) Lock() {
	if active {
		me := current
		waitMutex[me] = m
		decide(me, KLock)
		waitMutex[me] = nil
		m.held = true
	}
	m.real.Lock()
}

//go:norace
func (m *Mutex) Unlock() {
	m.real.Unlock()
	if active {
		m.held = false
		decide(current, KUnlock)
	}
}

// Yield is a scheduling point for the harness (writer callbacks, call boundaries).
//
//go:norace
func Yield(kind int) {
	if active {
		decide(current, kind)
	}
}

// ---- controller side ---------------------------------------------------------------

// Result of one controlled execution.
type Result struct {
	Trace     []PointRec
	Deadlock  bool
	Overflow  bool
	BadChoice bool
}

//go:norace
func setup(n int, sched []int8) {
	if !pipesOpen {
		for i := 0; i <= MaxThreads; i++ {
			var fds [2]int
			if err := syscall.Pipe(fds[:]); err != nil {
				panic(err)
			}
			pipes[i] = fds
		}
		pipesOpen = true
	}
	nthreads = n
	for t := 0; t < MaxThreads; t++ {
		status[t] = 0
		waitMutex[t] = nil
		waitRW[t] = nil
	}
	schedule = sched
	ntrace = 0
	deadlock, overflow, aborting, badChoice = false, false, false, false
}

//go:norace
func threadMain(t int, body func(), wg *sync.WaitGroup) {
	defer wg.Done()
	defer func() {
		if r := recover(); r != nil {
			if _, ok := r.(abortSignal); ok {
				return
			}
			panic(r)
		}
	}()
	wait(t) // until first scheduled
	if aborting {
		return
	}
	body()
	finish(t)
}

//go:norace
func finish(t int) {
	status[t] = 1
	decide(t, KDone)
}

//go:norace
func start() {
	active = true
	// first decision is made on behalf of a virtual thread: pick among all threads
	var rec PointRec
	rec.Thread, rec.Kind = -1, KStart
	for t := 0; t < nthreads; t++ {
		rec.En[t] = int8(t)
	}
	rec.NEn = int8(nthreads)
	choice := 0
	if len(schedule) > 0 {
		choice = int(schedule[0])
		if choice >= nthreads {
			badChoice = true
			choice = 0
		}
	}
	rec.Choice = int8(choice)
	trace[0] = rec
	ntrace = 1
	current = int(rec.En[choice])
	wake(current)
	wait(nthreads)
}

//go:norace
func stop() (dl, of, bc bool, n int) {
	if deadlock {
		aborting = true
		for t := 0; t < nthreads; t++ {
			if status[t] == 0 {
				wake(t)
			}
		}
	}
	active = false
	return deadlock, overflow, badChoice, ntrace
}

//go:norace
func copyTrace(n int) []PointRec {
	out := make([]PointRec, n)
	for i := 0; i < n; i++ {
		out[i] = trace[i]
	}
	return out
}

// Run executes bodies under the controlled scheduler following sched (choices
// beyond its end are 0: keep running the current thread, else the lowest id).
func Run(bodies []func(), sched []int8) Result {
	var wg sync.WaitGroup
	setup(len(bodies), sched)
	for t := range bodies {
		wg.Add(1)
		go threadMain(t, bodies[t], &wg)
	}
	start()
	dl, of, bc, n := stop()
	wg.Wait() // real synchronisation: results written by the threads are ordered before the caller reads them
	return Result{Trace: copyTrace(n), Deadlock: dl, Overflow: of, BadChoice: bc}
}
