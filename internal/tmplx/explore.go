package tmplx

import (
	"sort"
	"strings"
	"sync/atomic"

	"verif/internal/core"
)

// Frag is one symbol of a fragment alphabet.
type Frag struct {
	Text string
	Ctl  byte // 0 text; 'i' if, 'r' range, 'w' with, 'e' else, 'd' end
}

// T makes plain text fragments.
func T(texts ...string) []Frag {
	var out []Frag
	for _, t := range texts {
		out = append(out, Frag{Text: t})
	}
	return out
}

// Control fragments (conditions read dedicated control fields, never payload).
var (
	If    = Frag{"{{if $.C}}", 'i'}
	If2   = Frag{"{{if $.C2}}", 'i'}
	Range = Frag{"{{range $.L}}", 'r'}
	With  = Frag{"{{with $.W}}", 'w'}
	Else  = Frag{"{{else}}", 'e'}
	End   = Frag{"{{end}}", 'd'}
)

// Helpers are appended (as {{define}} blocks) to every program that calls them.
var Helpers = map[string]string{
	"h":    Slot,
	"q":    `"`,
	"open": `<a href="`,
	"gt":   `>`,
	"hh":   `{{template "h" $}}`,
	"bh":   `<b>` + Slot + `</b>`, // an element of its own around the action
	"ot":   `<b title="` + Slot, // opens an attribute and interpolates into it: leaves the context it was called in
}

// Node is one explored program prefix (auto-closed into a complete program).
type Node struct {
	Seq   []int
	Text  string // complete program text (slots instantiated)
	Raw   string // program with Slot placeholders
	Slots int
	Depth int
	Uses  struct{ C, C2, L, W bool }
}

type open struct {
	kind    byte
	hasElse bool
}

// Explorer walks all fragment sequences up to MaxDepth.
type Explorer struct {
	Alpha    []Frag
	MaxDepth int
	// Visit is called for every prefix; it returns prune=true if no extension
	// needs to be explored (sound only for infectious analysis errors).
	Visit func(n *Node, underPruned bool) (prune bool)
	// SoftDepth: prefixes of depth <= SoftDepth under a pruned ancestor are
	// still visited (underPruned=true) so that pruning soundness is checked.
	SoftDepth int
	Expired   func() bool

	States, Transitions, Pruned int64
	Capped                      int32
}

func (e *Explorer) build(seq []int) *Node {
	var b strings.Builder
	var st []open
	n := &Node{Seq: append([]int{}, seq...), Depth: len(seq)}
	for _, i := range seq {
		f := e.Alpha[i]
		b.WriteString(f.Text)
		switch f.Ctl {
		case 'i', 'r', 'w':
			st = append(st, open{kind: f.Ctl})
		case 'e':
			st[len(st)-1].hasElse = true
		case 'd':
			st = st[:len(st)-1]
		}
	}
	for range st {
		b.WriteString("{{end}}")
	}
	raw := b.String()
	names := make([]string, 0, len(Helpers))
	for name := range Helpers {
		names = append(names, name)
	}
	sort.Strings(names) // deterministic program text (it is part of violation keys)
	for _, name := range names {
		body := Helpers[name]
		if strings.Contains(raw, `{{template "`+name+`"`) {
			raw += `{{define "` + name + `"}}` + body + `{{end}}`
			if name == "hh" && !strings.Contains(raw, `{{define "h"}}`) {
				raw += `{{define "h"}}` + Helpers["h"] + `{{end}}`
			}
		}
	}
	n.Raw = raw
	text, slots, ok := Build(raw)
	if !ok {
		return nil
	}
	n.Text, n.Slots = text, slots
	n.Uses.C = strings.Contains(raw, "$.C}}")
	n.Uses.C2 = strings.Contains(raw, "$.C2}}")
	n.Uses.L = strings.Contains(raw, "$.L}}")
	n.Uses.W = strings.Contains(raw, "$.W}}")
	return n
}

// allowed reports whether fragment f may follow the sequence whose control stack is st.
func allowed(f Frag, st []open) bool {
	switch f.Ctl {
	case 'e':
		return len(st) > 0 && !st[len(st)-1].hasElse
	case 'd':
		return len(st) > 0
	case 'i', 'r', 'w':
		return len(st) < 2
	}
	return true
}

func (e *Explorer) rec(seq []int, st []open, underPruned bool) {
	if e.Expired != nil && e.Expired() {
		atomic.StoreInt32(&e.Capped, 1)
		return
	}
	n := e.build(seq)
	if n == nil {
		return
	}
	atomic.AddInt64(&e.States, 1)
	prune := e.Visit(n, underPruned)
	if len(seq) >= e.MaxDepth {
		return
	}
	if prune || underPruned {
		if len(seq) >= e.SoftDepth {
			atomic.AddInt64(&e.Pruned, 1)
			return
		}
		underPruned = true
	}
	for i, f := range e.Alpha {
		if !allowed(f, st) {
			continue
		}
		st2 := st
		switch f.Ctl {
		case 'i', 'r', 'w':
			st2 = append(append([]open{}, st...), open{kind: f.Ctl})
		case 'e':
			st2 = append([]open{}, st...)
			st2[len(st2)-1].hasElse = true
		case 'd':
			st2 = st[:len(st)-1]
		}
		atomic.AddInt64(&e.Transitions, 1)
		e.rec(append(seq, i), st2, underPruned)
	}
}

// Run explores everything, sharded over workers by the first two fragments.
func (e *Explorer) Run() {
	root := e.build(nil)
	atomic.AddInt64(&e.States, 1)
	e.Visit(root, false)
	type job struct {
		seq []int
		st  []open
		up  bool
	}
	var jobs []job
	for i, f := range e.Alpha {
		if !allowed(f, nil) {
			continue
		}
		var st []open
		if f.Ctl != 0 {
			st = []open{{kind: f.Ctl}}
		}
		n := e.build([]int{i})
		if n == nil {
			continue
		}
		atomic.AddInt64(&e.States, 1)
		atomic.AddInt64(&e.Transitions, 1)
		pr := e.Visit(n, false)
		if e.MaxDepth < 2 {
			continue
		}
		if pr && e.SoftDepth <= 1 {
			atomic.AddInt64(&e.Pruned, 1)
			continue
		}
		for j, g := range e.Alpha {
			if !allowed(g, st) {
				continue
			}
			st2 := st
			switch g.Ctl {
			case 'i', 'r', 'w':
				st2 = append(append([]open{}, st...), open{kind: g.Ctl})
			case 'e':
				st2 = append([]open{}, st...)
				st2[len(st2)-1].hasElse = true
			case 'd':
				st2 = st[:len(st)-1]
			}
			jobs = append(jobs, job{[]int{i, j}, st2, pr})
		}
	}
	atomic.AddInt64(&e.Transitions, int64(len(jobs)))
	core.ParallelFor(len(jobs), func(k int) {
		j := jobs[k]
		e.rec(append(make([]int, 0, e.MaxDepth+1), j.seq...), j.st, j.up)
	})
}

// NodeFromRaw builds a node from a complete program text with Slot placeholders.
func NodeFromRaw(raw string, depth int) *Node {
	n := &Node{Raw: raw, Depth: depth}
	text, slots, ok := Build(raw)
	if !ok {
		return nil
	}
	n.Text, n.Slots = text, slots
	n.Uses.C = strings.Contains(raw, "$.C}}")
	n.Uses.C2 = strings.Contains(raw, "$.C2}}")
	n.Uses.L = strings.Contains(raw, "$.L}}")
	n.Uses.W = strings.Contains(raw, "$.W}}")
	return n
}

// Product enumerates the cartesian product of alternatives (one per part) in
// parallel over the alternatives of the first two parts; visit gets the concatenation.
func Product(parts [][]string, visit func(raw string)) int64 {
	var count int64
	type job struct{ a, b int }
	var jobs []job
	for a := range parts[0] {
		if len(parts) > 1 {
			for b := range parts[1] {
				jobs = append(jobs, job{a, b})
			}
		} else {
			jobs = append(jobs, job{a, -1})
		}
	}
	core.ParallelFor(len(jobs), func(k int) {
		j := jobs[k]
		prefix := parts[0][j.a]
		rest := parts[1:]
		if j.b >= 0 {
			prefix += parts[1][j.b]
			rest = parts[2:]
		}
		var rec func(p string, i int)
		var n int64
		rec = func(p string, i int) {
			if i == len(rest) {
				visit(p)
				n++
				return
			}
			for _, alt := range rest[i] {
				rec(p+alt, i+1)
			}
		}
		rec(prefix, 0)
		atomic.AddInt64(&count, n)
	})
	return count
}
