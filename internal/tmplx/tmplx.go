// Package tmplx is engine E2: it builds template programs from fragment
// sequences, runs them on the real safehtml/template engine (and on plain
// text/template for the author's rendering) and reduces HTML output to a
// structural signature with the independent tokenizer.
package tmplx

import (
	"bytes"
	"errors"
	"fmt"
	"regexp"
	"strconv"
	"strings"
	ttemplate "text/template"

	"github.com/google/safehtml"
	"github.com/google/safehtml/template"
	tuc "github.com/google/safehtml/template/uncheckedconversions"
	suc "github.com/google/safehtml/uncheckedconversions"

	"verif/internal/oracle/htmltok"
)

// Slot is the placeholder for one payload action inside fragment text; Build
// replaces the k-th occurrence by {{$.Pk}}.
const Slot = "§"

// MaxSlots is the number of payload fields of Data.
const MaxSlots = 8

// Data is the value every program is executed with. Control fields are never
// the payload, so the control path is fixed independently of the data.
type Data struct {
	P0, P1, P2, P3, P4, P5, P6, P7 interface{}
	C, C2                          bool
	L                              []interface{}
	W                              interface{}
}

func (d *Data) Set(k int, v interface{}) {
	switch k {
	case 0:
		d.P0 = v
	case 1:
		d.P1 = v
	case 2:
		d.P2 = v
	case 3:
		d.P3 = v
	case 4:
		d.P4 = v
	case 5:
		d.P5 = v
	case 6:
		d.P6 = v
	case 7:
		d.P7 = v
	}
}

func (d *Data) Get(k int) interface{} {
	return [...]interface{}{d.P0, d.P1, d.P2, d.P3, d.P4, d.P5, d.P6, d.P7}[k]
}

// Build instantiates the slots of a program text. It returns the text and the
// number of slots; ok=false if there are more than MaxSlots.
func Build(text string) (string, int, bool) {
	n := strings.Count(text, Slot)
	if n > MaxSlots {
		return "", n, false
	}
	var b strings.Builder
	k := 0
	for {
		i := strings.Index(text, Slot)
		if i < 0 {
			b.WriteString(text)
			break
		}
		b.WriteString(text[:i])
		b.WriteString("{{$.P" + strconv.Itoa(k) + "}}")
		k++
		text = text[i+len(Slot):]
	}
	return b.String(), n, true
}

// Kind of outcome of preparing / executing a program.
type Kind int

const (
	OK          Kind = iota
	ParseError       // text/template syntax error: not a program
	Rejected         // contextual analysis failed (*template.Error)
	RejectedEnd      // analysis failed with ErrEndContext (ends in non-text context)
	OtherError       // other non-exec error (empty template, ...)
	ExecError        // run-time error (sanitizer refused a value, ...)
	Panicked         // a panic escaped the API
)

func (k Kind) String() string {
	return [...]string{"ok", "parse-error", "rejected", "rejected-end-context", "other-error", "exec-error", "panic"}[k]
}

type Result struct {
	Kind  Kind
	Out   string
	Err   error
	Panic interface{}
}

// Prepared is a parsed program (one template set named "t").
type Prepared struct {
	Text string
	T    *template.Template
}

// Funcs available to programs (harness functions).
var Funcs = template.FuncMap{}

// Prepare parses text with the real engine. Kind is OK or ParseError/Panicked.
func Prepare(text string) (p *Prepared, res Result) {
	defer func() {
		if r := recover(); r != nil {
			p, res = nil, Result{Kind: Panicked, Panic: r}
		}
	}()
	t, err := template.New("t").Funcs(Funcs).ParseFromTrustedTemplate(tuc.TrustedTemplateFromStringKnownToSatisfyTypeContract(text))
	if err != nil {
		return nil, Result{Kind: ParseError, Err: err}
	}
	return &Prepared{Text: text, T: t}, Result{Kind: OK}
}

// Exec executes the prepared program with d.
func (p *Prepared) Exec(d *Data) (res Result) {
	defer func() {
		if r := recover(); r != nil {
			res = Result{Kind: Panicked, Panic: r}
		}
	}()
	var buf bytes.Buffer
	err := p.T.Execute(&buf, d)
	return classify(buf.String(), err)
}

func classify(out string, err error) Result {
	if err == nil {
		return Result{Kind: OK, Out: out}
	}
	var te *template.Error
	if errors.As(err, &te) {
		if te.ErrorCode == template.ErrEndContext {
			return Result{Kind: RejectedEnd, Err: err, Out: out}
		}
		return Result{Kind: Rejected, Err: err, Out: out}
	}
	var ee ttemplate.ExecError
	if errors.As(err, &ee) {
		return Result{Kind: ExecError, Err: err, Out: out}
	}
	return Result{Kind: OtherError, Err: err, Out: out}
}

// Run is Prepare + Exec on a fresh set.
func Run(text string, d *Data) Result {
	p, r := Prepare(text)
	if p == nil {
		return r
	}
	return p.Exec(d)
}

// Author renders text with plain text/template (no contextual escaping): this
// is the markup the template author wrote for the control path taken.
func Author(text string, d *Data) (string, error) {
	t, err := ttemplate.New("t").Parse(text)
	if err != nil {
		return "", err
	}
	var buf bytes.Buffer
	if err := t.Execute(&buf, d); err != nil {
		return buf.String(), err
	}
	return buf.String(), nil
}

var slotInErr = regexp.MustCompile(`<\$\.P([0-9])>`)

// FailingSlot extracts the slot index from a text/template execution error.
func FailingSlot(err error) int {
	if err == nil {
		return -1
	}
	m := slotInErr.FindStringSubmatch(err.Error())
	if m == nil {
		return -1
	}
	return int(m[1][0] - '0')
}

// Inert is the inert untyped placeholder: starts with a digit (cannot begin a
// tag name or an entity), relative URL, no special byte in any lexical position.
const Inert = "0z9"

// InertCandidates are tried in order for a slot until execution gets past it.
func InertCandidates() []interface{} {
	return []interface{}{
		Inert,
		suc.IdentifierFromStringKnownToSatisfyTypeContract("z0"),
		suc.TrustedResourceURLFromStringKnownToSatisfyTypeContract("/z0"),
		suc.ScriptFromStringKnownToSatisfyTypeContract("0;"),
		suc.StyleFromStringKnownToSatisfyTypeContract("top:0;"),
		suc.StyleSheetFromStringKnownToSatisfyTypeContract("z{}"),
		suc.HTMLFromStringKnownToSatisfyTypeContract("0z9"),
		"async", "auto", "eager", "_self",
	}
}

// FindInert binds every slot to an inert value the program accepts. ok=false
// if some slot accepts none (the program never produces output).
func (p *Prepared) FindInert(nslots int, base Data) (Data, Result, bool) {
	d := base
	idx := make([]int, nslots)
	cands := InertCandidates()
	for k := 0; k < nslots; k++ {
		d.Set(k, cands[0])
	}
	for iter := 0; iter < nslots*len(cands)+2; iter++ {
		r := p.Exec(&d)
		if r.Kind != ExecError {
			return d, r, r.Kind == OK
		}
		k := FailingSlot(r.Err)
		if k < 0 || k >= nslots {
			return d, r, false
		}
		idx[k]++
		if idx[k] >= len(cands) {
			return d, r, false
		}
		d.Set(k, cands[idx[k]])
	}
	return d, Result{Kind: ExecError, Err: fmt.Errorf("no inert binding found")}, false
}

// IsTyped reports whether v is a safehtml typed value.
func IsTyped(v interface{}) bool {
	switch v.(type) {
	case safehtml.HTML, safehtml.Script, safehtml.Style, safehtml.StyleSheet, safehtml.URL, safehtml.TrustedResourceURL, safehtml.Identifier:
		return true
	}
	return false
}

// ---- structural signature ---------------------------------------------------

// Sig reduces HTML to the sequence of tags, attribute names, comments,
// doctypes, raw-text boundaries and the final tokenizer state.
func Sig(html string, foreign bool) string {
	res := htmltok.Tokenize([]byte(html), htmltok.Options{AutoSwitch: true, Scripting: true, Foreign: foreign, Preprocess: true})
	return SigOf(res, true)
}

// SigOf renders a token list; withComments=false drops comment tokens.
func SigOf(res htmltok.Result, withComments bool) string {
	var b strings.Builder
	for _, t := range res.Tokens {
		switch t.Type {
		case htmltok.StartTag:
			b.WriteString("<" + t.Name)
			for _, a := range t.Attrs {
				b.WriteString(" " + a.Name)
				if a.Dup {
					b.WriteString("(dup)")
				}
			}
			if t.SelfClosing {
				b.WriteString("/")
			}
			b.WriteString(">")
		case htmltok.EndTag:
			b.WriteString("</" + t.Name)
			for _, a := range t.Attrs {
				b.WriteString(" " + a.Name)
			}
			b.WriteString(">")
		case htmltok.Comment:
			if withComments {
				b.WriteString("<!---->")
			}
		case htmltok.Doctype:
			b.WriteString("<!DOCTYPE>")
		}
	}
	b.WriteString("$" + res.Final.String())
	return b.String()
}

// Tokenize is the standard configuration used by all template checks.
func Tokenize(html string, foreign bool) htmltok.Result {
	return htmltok.Tokenize([]byte(html), htmltok.Options{AutoSwitch: true, Scripting: true, Foreign: foreign, Preprocess: true})
}
