// Package srcset is oracle O3: the HTML Standard's "parse a srcset attribute"
// algorithm (https://html.spec.whatwg.org/multipage/images.html#parsing-a-srcset-attribute),
// written step by step from the specification.
package srcset

// Candidate is one image candidate before descriptor validation.
type Candidate struct {
	URL         string
	Descriptors []string
	// DescriptorError is what the spec's descriptor parser decides (candidate dropped by a browser).
	DescriptorError bool
}

func ws(c byte) bool { return c == '\t' || c == '\n' || c == '\f' || c == '\r' || c == ' ' }

// Parse returns every candidate the splitting loop finds (including those a
// browser later drops because of a descriptor error, flagged).
func Parse(in string) []Candidate {
	var out []Candidate
	pos := 0
	for {
		// 4. collect whitespace or commas
		for pos < len(in) && (ws(in[pos]) || in[pos] == ',') {
			pos++
		}
		if pos >= len(in) {
			return out
		}
		// 6. url = non-whitespace run
		st := pos
		for pos < len(in) && !ws(in[pos]) {
			pos++
		}
		url := in[st:pos]
		var descs []string
		if url[len(url)-1] == ',' {
			for len(url) > 0 && url[len(url)-1] == ',' {
				url = url[:len(url)-1]
			}
		} else {
			// descriptor tokenizer
			for pos < len(in) && ws(in[pos]) {
				pos++
			}
			cur := ""
			const (
				inDesc = iota
				inParens
				afterDesc
			)
			state := inDesc
		tok:
			for {
				if pos >= len(in) {
					// EOF
					switch state {
					case inDesc, inParens:
						if cur != "" {
							descs = append(descs, cur)
						}
					}
					break tok
				}
				c := in[pos]
				switch state {
				case inDesc:
					switch {
					case ws(c):
						if cur != "" {
							descs = append(descs, cur)
							cur = ""
							state = afterDesc
						}
					case c == ',':
						pos++
						if cur != "" {
							descs = append(descs, cur)
						}
						break tok
					case c == '(':
						cur += "("
						state = inParens
					default:
						cur += string([]byte{c})
					}
				case inParens:
					if c == ')' {
						cur += ")"
						state = inDesc
					} else {
						cur += string([]byte{c})
					}
				case afterDesc:
					if !ws(c) {
						state = inDesc
						continue // reprocess
					}
				}
				pos++
			}
		}
		out = append(out, Candidate{URL: url, Descriptors: descs, DescriptorError: descError(descs)})
	}
}

func descError(ds []string) bool {
	var w, d, h bool
	for _, s := range ds {
		if len(s) < 2 {
			return true
		}
		num, unit := s[:len(s)-1], s[len(s)-1]
		switch unit {
		case 'w':
			if !nonNegInt(num) || w || d {
				return true
			}
			if allZero(num) {
				return true
			}
			w = true
		case 'x':
			if !validFloat(num) || w || d || h {
				return true
			}
			if num[0] == '-' {
				return true
			}
			d = true
		case 'h':
			if !nonNegInt(num) || h || d {
				return true
			}
			if allZero(num) {
				return true
			}
			h = true
		default:
			return true
		}
	}
	if h && !w {
		return true
	}
	return false
}

func nonNegInt(s string) bool {
	if s == "" {
		return false
	}
	for i := 0; i < len(s); i++ {
		if s[i] < '0' || s[i] > '9' {
			return false
		}
	}
	return true
}

func allZero(s string) bool {
	for i := 0; i < len(s); i++ {
		if s[i] != '0' {
			return false
		}
	}
	return true
}

// validFloat: HTML "valid floating-point number".
func validFloat(s string) bool {
	i := 0
	if i < len(s) && s[i] == '-' {
		i++
	}
	d1 := 0
	for i < len(s) && s[i] >= '0' && s[i] <= '9' {
		i++
		d1++
	}
	d2 := 0
	if i < len(s) && s[i] == '.' {
		i++
		for i < len(s) && s[i] >= '0' && s[i] <= '9' {
			i++
			d2++
		}
		if d2 == 0 {
			return false
		}
	}
	if d1 == 0 && d2 == 0 {
		return false
	}
	if i < len(s) && (s[i] == 'e' || s[i] == 'E') {
		i++
		if i < len(s) && (s[i] == '-' || s[i] == '+') {
			i++
		}
		d3 := 0
		for i < len(s) && s[i] >= '0' && s[i] <= '9' {
			i++
			d3++
		}
		if d3 == 0 {
			return false
		}
	}
	return i == len(s)
}
