package htmltok

import (
	"embed"
	"encoding/json"
	"fmt"
	"reflect"
	"regexp"
	"sort"
	"strconv"
	"strings"
	"unicode/utf8"
)

//go:embed testdata/*.test
var corpus embed.FS

type h5test struct {
	Description   string          `json:"description"`
	Input         string          `json:"input"`
	Output        []interface{}   `json:"output"`
	InitialStates []string        `json:"initialStates"`
	LastStartTag  string          `json:"lastStartTag"`
	DoubleEscaped bool            `json:"doubleEscaped"`
	Errors        json.RawMessage `json:"errors"`
}

var uEsc = regexp.MustCompile(`\\u([0-9a-fA-F]{4})`)

// unDouble decodes \uXXXX escapes of "doubleEscaped" tests; ok=false if the
// result would contain a lone surrogate (not representable in a Go string).
func unDouble(s string) (string, bool) {
	ok := true
	var units []uint16
	var out strings.Builder
	flush := func() {
		for i := 0; i < len(units); i++ {
			u := units[i]
			if u >= 0xD800 && u <= 0xDBFF && i+1 < len(units) && units[i+1] >= 0xDC00 && units[i+1] <= 0xDFFF {
				r := (rune(u)-0xD800)<<10 + (rune(units[i+1]) - 0xDC00) + 0x10000
				out.WriteRune(r)
				i++
			} else if u >= 0xD800 && u <= 0xDFFF {
				ok = false
			} else {
				out.WriteRune(rune(u))
			}
		}
		units = units[:0]
	}
	i := 0
	for i < len(s) {
		if m := uEsc.FindStringSubmatchIndex(s[i:]); m != nil && m[0] == 0 {
			n, _ := strconv.ParseUint(s[i+2:i+6], 16, 16)
			units = append(units, uint16(n))
			i += 6
			continue
		}
		flush()
		out.WriteByte(s[i])
		i++
	}
	flush()
	return out.String(), ok
}

var stateByName = map[string]State{
	"Data state": Data, "PLAINTEXT state": PLAINTEXT, "RCDATA state": RCDATA, "RAWTEXT state": RAWTEXT,
	"Script data state": ScriptData, "CDATA section state": CDATASection,
}

// canonical form of a token list, html5lib style.
func canonTokens(ts []Token) []interface{} {
	var out []interface{}
	for _, t := range ts {
		switch t.Type {
		case Text:
			if n := len(out); n > 0 {
				if prev, ok := out[n-1].([]interface{}); ok && prev[0] == "Character" {
					prev[1] = prev[1].(string) + t.Data
					continue
				}
			}
			out = append(out, []interface{}{"Character", t.Data})
		case StartTag:
			attrs := map[string]interface{}{}
			for _, a := range t.Attrs {
				if !a.Dup {
					attrs[a.Name] = a.Value
				}
			}
			if t.SelfClosing {
				out = append(out, []interface{}{"StartTag", t.Name, attrs, true})
			} else {
				out = append(out, []interface{}{"StartTag", t.Name, attrs})
			}
		case EndTag:
			out = append(out, []interface{}{"EndTag", t.Name})
		case Comment:
			out = append(out, []interface{}{"Comment", t.Data})
		case Doctype:
			var name, pub, sys interface{}
			if t.Name != "" {
				name = t.Name
			}
			if t.PublicID != nil {
				pub = *t.PublicID
			}
			if t.SystemID != nil {
				sys = *t.SystemID
			}
			out = append(out, []interface{}{"DOCTYPE", name, pub, sys, !t.ForceQuirks})
		}
	}
	return out
}

// SelfTestResult summarises a corpus run.
type SelfTestResult struct {
	Cases, Passed, Skipped int
	Failures               []string
}

// SelfTest runs the vendored html5lib-tests tokenizer corpus against Tokenize.
func SelfTest() SelfTestResult {
	var res SelfTestResult
	ents, _ := corpus.ReadDir("testdata")
	var names []string
	for _, e := range ents {
		names = append(names, e.Name())
	}
	sort.Strings(names)
	for _, name := range names {
		if name == "xmlViolation.test" {
			continue // XML-violation mode is not part of the HTML tokenizer proper
		}
		b, _ := corpus.ReadFile("testdata/" + name)
		var f struct {
			Tests []h5test `json:"tests"`
		}
		if err := json.Unmarshal(b, &f); err != nil {
			res.Failures = append(res.Failures, name+": "+err.Error())
			continue
		}
		for _, tc := range f.Tests {
			states := tc.InitialStates
			if len(states) == 0 {
				states = []string{"Data state"}
			}
			input := tc.Input
			want := tc.Output
			if tc.DoubleEscaped {
				var ok bool
				input, ok = unDouble(input)
				wb, _ := json.Marshal(want)
				ws, ok2 := unDoubleJSON(wb)
				if !ok || !ok2 {
					res.Cases += len(states)
					res.Skipped += len(states)
					continue
				}
				want = ws
			}
			if !utf8.ValidString(input) {
				res.Cases += len(states)
				res.Skipped += len(states)
				continue
			}
			for _, sn := range states {
				res.Cases++
				st, ok := stateByName[sn]
				if !ok {
					res.Skipped++
					continue
				}
				r := Tokenize([]byte(input), Options{Initial: st, LastStartTag: tc.LastStartTag, Foreign: st == CDATASection, Preprocess: true})
				got := canonTokens(r.Tokens)
				// normalise through JSON for comparison
				gb, _ := json.Marshal(got)
				wb, _ := json.Marshal(want)
				var g2, w2 interface{}
				json.Unmarshal(gb, &g2)
				json.Unmarshal(wb, &w2)
				if g2 == nil {
					g2 = []interface{}{}
				}
				if w2 == nil {
					w2 = []interface{}{}
				}
				if reflect.DeepEqual(g2, w2) {
					res.Passed++
				} else if len(res.Failures) < 40 {
					res.Failures = append(res.Failures, fmt.Sprintf("%s [%s] %q in %s: got %s want %s", name, tc.Description, input, sn, gb, wb))
				} else {
					res.Failures = append(res.Failures, "")
				}
			}
		}
	}
	return res
}

func unDoubleJSON(b []byte) ([]interface{}, bool) {
	var v []interface{}
	if err := json.Unmarshal(b, &v); err != nil {
		return nil, false
	}
	ok := true
	var walk func(x interface{}) interface{}
	walk = func(x interface{}) interface{} {
		switch t := x.(type) {
		case string:
			s, o := unDouble(t)
			if !o {
				ok = false
			}
			return s
		case []interface{}:
			for i := range t {
				t[i] = walk(t[i])
			}
			return t
		case map[string]interface{}:
			m := map[string]interface{}{}
			for k, v := range t {
				k2, o := unDouble(k)
				if !o {
					ok = false
				}
				m[k2] = walk(v)
			}
			return m
		}
		return x
	}
	walk(v)
	return v, ok
}
