// Package htmltok is oracle O1: an independent implementation of the WHATWG
// HTML tokenizer (HTML Living Standard §13.2.5), written state by state from
// the specification and validated against the html5lib-tests tokenizer corpus
// (see selftest.go). It works on bytes; all syntactically significant
// characters are ASCII, other bytes are "anything else".
package htmltok

import (
	"strings"
	"unicode/utf8"

	xhtml "verif/third_party/xhtml"
)

type TokType int

const (
	Text TokType = iota
	StartTag
	EndTag
	Comment
	Doctype
)

func (t TokType) String() string {
	return [...]string{"Text", "StartTag", "EndTag", "Comment", "Doctype"}[t]
}

type Attr struct {
	Name, Value      string
	RawStart, RawEnd int  // span of the raw (undecoded) value in the input, quotes excluded
	Quote            byte // '"', '\'' or 0 (unquoted / no value)
	Dup              bool // duplicate attribute (dropped by the tokenizer, kept here flagged)
}

type Token struct {
	Type        TokType
	Name        string // tag or doctype name
	Data        string // text or comment data (decoded)
	Attrs       []Attr
	SelfClosing bool
	Start, End  int    // byte span in the input
	Mode        string // Text only: data rcdata rawtext script plaintext cdata
	PublicID    *string
	SystemID    *string
	ForceQuirks bool
}

type State int

const (
	Data State = iota
	RCDATA
	RAWTEXT
	ScriptData
	PLAINTEXT
	TagOpen
	EndTagOpen
	TagName
	RCDATALt
	RCDATAEndTagOpen
	RCDATAEndTagName
	RAWTEXTLt
	RAWTEXTEndTagOpen
	RAWTEXTEndTagName
	ScriptLt
	ScriptEndTagOpen
	ScriptEndTagName
	ScriptEscapeStart
	ScriptEscapeStartDash
	ScriptEscaped
	ScriptEscapedDash
	ScriptEscapedDashDash
	ScriptEscapedLt
	ScriptEscapedEndTagOpen
	ScriptEscapedEndTagName
	ScriptDoubleEscapeStart
	ScriptDoubleEscaped
	ScriptDoubleEscapedDash
	ScriptDoubleEscapedDashDash
	ScriptDoubleEscapedLt
	ScriptDoubleEscapeEnd
	BeforeAttrName
	AttrName
	AfterAttrName
	BeforeAttrValue
	AttrValueDQ
	AttrValueSQ
	AttrValueUnq
	AfterAttrValueQuoted
	SelfClosingStartTag
	BogusComment
	MarkupDeclOpen
	CommentStart
	CommentStartDash
	CommentSt
	CommentLt
	CommentLtBang
	CommentLtBangDash
	CommentLtBangDashDash
	CommentEndDash
	CommentEnd
	CommentEndBang
	DoctypeSt
	BeforeDoctypeName
	DoctypeName
	AfterDoctypeName
	AfterDoctypePublicKeyword
	BeforeDoctypePublicID
	DoctypePublicIDDQ
	DoctypePublicIDSQ
	AfterDoctypePublicID
	BetweenDoctypePublicAndSystem
	AfterDoctypeSystemKeyword
	BeforeDoctypeSystemID
	DoctypeSystemIDDQ
	DoctypeSystemIDSQ
	AfterDoctypeSystemID
	BogusDoctype
	CDATASection
	CDATABracket
	CDATAEnd
	numStates
)

var stateNames = [...]string{"Data", "RCDATA", "RAWTEXT", "ScriptData", "PLAINTEXT", "TagOpen", "EndTagOpen", "TagName",
	"RCDATALt", "RCDATAEndTagOpen", "RCDATAEndTagName", "RAWTEXTLt", "RAWTEXTEndTagOpen", "RAWTEXTEndTagName",
	"ScriptLt", "ScriptEndTagOpen", "ScriptEndTagName", "ScriptEscapeStart", "ScriptEscapeStartDash", "ScriptEscaped",
	"ScriptEscapedDash", "ScriptEscapedDashDash", "ScriptEscapedLt", "ScriptEscapedEndTagOpen", "ScriptEscapedEndTagName",
	"ScriptDoubleEscapeStart", "ScriptDoubleEscaped", "ScriptDoubleEscapedDash", "ScriptDoubleEscapedDashDash",
	"ScriptDoubleEscapedLt", "ScriptDoubleEscapeEnd", "BeforeAttrName", "AttrName", "AfterAttrName", "BeforeAttrValue",
	"AttrValueDQ", "AttrValueSQ", "AttrValueUnq", "AfterAttrValueQuoted", "SelfClosingStartTag", "BogusComment",
	"MarkupDeclOpen", "CommentStart", "CommentStartDash", "Comment", "CommentLt", "CommentLtBang", "CommentLtBangDash",
	"CommentLtBangDashDash", "CommentEndDash", "CommentEnd", "CommentEndBang", "Doctype", "BeforeDoctypeName", "DoctypeName",
	"AfterDoctypeName", "AfterDoctypePublicKeyword", "BeforeDoctypePublicID", "DoctypePublicIDDQ", "DoctypePublicIDSQ",
	"AfterDoctypePublicID", "BetweenDoctypePublicAndSystem", "AfterDoctypeSystemKeyword", "BeforeDoctypeSystemID",
	"DoctypeSystemIDDQ", "DoctypeSystemIDSQ", "AfterDoctypeSystemID", "BogusDoctype", "CDATASection", "CDATABracket", "CDATAEnd"}

func (s State) String() string {
	if int(s) < len(stateNames) {
		return stateNames[s]
	}
	return "?"
}

type Options struct {
	Initial      State
	LastStartTag string
	// AutoSwitch emulates the tree builder's tokenizer-state switches after
	// start tags (title/textarea -> RCDATA, style/xmp/iframe/noembed/noframes
	// (+noscript when Scripting) -> RAWTEXT, script -> script data, plaintext).
	AutoSwitch bool
	Scripting  bool
	// Foreign: treat the whole input as foreign content (svg/math): CDATA
	// sections are recognised and AutoSwitch is suppressed.
	Foreign bool
	// Preprocess normalises CRLF and CR to LF first (input stream preprocessing).
	Preprocess bool
}

// Result is the outcome of tokenizing one input.
type Result struct {
	Tokens []Token
	Final  State  // state in which EOF was met
	Input  []byte // the (possibly preprocessed) input the spans refer to
}

type tokenizer struct {
	in    []byte
	pos   int
	state State
	ret   State // return state for character references
	opt   Options
	out   []Token
	last  string // last start tag name

	cur      Token // tag/comment/doctype being built
	curStart int
	attr     Attr
	inAttr   bool
	tmp      []byte // temporary buffer
	textBuf  []byte
	textMode string
	textFrom int
	lastEnd  int // end of the last markup token: text spans are exactly the gaps between markup tokens
}

func isWS(c byte) bool    { return c == '\t' || c == '\n' || c == '\f' || c == ' ' }
func isAlpha(c byte) bool { return c|0x20 >= 'a' && c|0x20 <= 'z' }
func isDigit(c byte) bool { return c >= '0' && c <= '9' }
func isAlnum(c byte) bool { return isAlpha(c) || isDigit(c) }
func isHex(c byte) bool   { return isDigit(c) || (c|0x20 >= 'a' && c|0x20 <= 'f') }
func lower(c byte) byte {
	if c >= 'A' && c <= 'Z' {
		return c + 0x20
	}
	return c
}

const fffd = "�"

func Preprocess(in []byte) []byte {
	out := make([]byte, 0, len(in))
	for i := 0; i < len(in); i++ {
		if in[i] == '\r' {
			out = append(out, '\n')
			if i+1 < len(in) && in[i+1] == '\n' {
				i++
			}
			continue
		}
		out = append(out, in[i])
	}
	return out
}

// Tokenize runs the tokenizer over input.
func Tokenize(input []byte, opt Options) Result {
	if opt.Preprocess {
		input = Preprocess(input)
	}
	t := &tokenizer{in: input, state: opt.Initial, opt: opt, last: opt.LastStartTag}
	final := t.run()
	return Result{Tokens: t.out, Final: final, Input: input}
}

func (t *tokenizer) modeName() string {
	switch t.state {
	case RCDATA, RCDATALt, RCDATAEndTagOpen, RCDATAEndTagName:
		return "rcdata"
	case RAWTEXT, RAWTEXTLt, RAWTEXTEndTagOpen, RAWTEXTEndTagName:
		return "rawtext"
	case PLAINTEXT:
		return "plaintext"
	case CDATASection, CDATABracket, CDATAEnd:
		return "cdata"
	}
	if t.state >= ScriptLt && t.state <= ScriptDoubleEscapeEnd || t.state == ScriptData {
		return "script"
	}
	return "data"
}

func (t *tokenizer) emitStr(s string, mode string) {
	if len(t.textBuf) > 0 && t.textMode != mode {
		t.flushText()
	}
	if len(t.textBuf) == 0 {
		t.textMode = mode
		t.textFrom = t.lastEnd
	}
	t.textBuf = append(t.textBuf, s...)
}

func (t *tokenizer) emitByte(c byte, mode string) {
	if len(t.textBuf) > 0 && t.textMode != mode {
		t.flushText()
	}
	if len(t.textBuf) == 0 {
		t.textMode = mode
		t.textFrom = t.lastEnd
	}
	t.textBuf = append(t.textBuf, c)
}

func (t *tokenizer) flushText() { t.flushTextAt(t.pos) }

// flushTextAt ends the pending text token at byte offset end (the start of the markup token that follows,
// or the current position at EOF / on a change of text mode).
func (t *tokenizer) flushTextAt(end int) {
	if len(t.textBuf) == 0 {
		return
	}
	if end < t.textFrom {
		end = t.textFrom
	}
	t.out = append(t.out, Token{Type: Text, Data: string(t.textBuf), Mode: t.textMode, Start: t.textFrom, End: end})
	t.textBuf = t.textBuf[:0]
	t.lastEnd = end
}

func (t *tokenizer) newTag(tp TokType) {
	t.cur = Token{Type: tp, Start: t.curStart}
	t.inAttr = false
}

func (t *tokenizer) startAttr() {
	t.finishAttr()
	t.attr = Attr{}
	t.inAttr = true
}

func (t *tokenizer) finishAttr() {
	if !t.inAttr {
		return
	}
	t.inAttr = false
	for _, a := range t.cur.Attrs {
		if a.Name == t.attr.Name && !a.Dup {
			t.attr.Dup = true
			break
		}
	}
	t.cur.Attrs = append(t.cur.Attrs, t.attr)
}

func (t *tokenizer) emitTag() {
	t.finishAttr()
	t.flushTextAt(t.cur.Start)
	t.cur.End = t.pos
	t.lastEnd = t.pos
	if t.cur.Type == EndTag {
		// end tags carry no attributes / self-closing flag (parse errors)
	}
	t.out = append(t.out, t.cur)
	if t.cur.Type == StartTag {
		t.last = t.cur.Name
		if t.opt.AutoSwitch && !t.opt.Foreign {
			switch t.cur.Name {
			case "title", "textarea":
				t.state = RCDATA
			case "style", "xmp", "iframe", "noembed", "noframes":
				t.state = RAWTEXT
			case "noscript":
				if t.opt.Scripting {
					t.state = RAWTEXT
				}
			case "script":
				t.state = ScriptData
			case "plaintext":
				t.state = PLAINTEXT
			}
		}
	}
}

func (t *tokenizer) emitComment() {
	t.flushTextAt(t.cur.Start)
	t.cur.End = t.pos
	t.lastEnd = t.pos
	t.out = append(t.out, t.cur)
}

func (t *tokenizer) appropriateEnd() bool {
	return t.last != "" && t.cur.Name == t.last
}

func (t *tokenizer) matchCI(s string) bool {
	if t.pos+len(s) > len(t.in) {
		return false
	}
	return strings.EqualFold(string(t.in[t.pos:t.pos+len(s)]), s)
}

// appendAttrOrText appends decoded characters of a character reference either
// to the current attribute value or to the text output.
func (t *tokenizer) flushRef(s string) {
	switch t.ret {
	case AttrValueDQ, AttrValueSQ, AttrValueUnq:
		t.attr.Value += s
	default:
		mode := "data"
		if t.ret == RCDATA {
			mode = "rcdata"
		}
		t.emitStr(s, mode)
	}
}

func (t *tokenizer) inAttrRet() bool {
	return t.ret == AttrValueDQ || t.ret == AttrValueSQ || t.ret == AttrValueUnq
}

var c1Replacements = map[int]rune{
	0x80: 0x20AC, 0x82: 0x201A, 0x83: 0x0192, 0x84: 0x201E, 0x85: 0x2026, 0x86: 0x2020, 0x87: 0x2021, 0x88: 0x02C6,
	0x89: 0x2030, 0x8A: 0x0160, 0x8B: 0x2039, 0x8C: 0x0152, 0x8E: 0x017D, 0x91: 0x2018, 0x92: 0x2019, 0x93: 0x201C,
	0x94: 0x201D, 0x95: 0x2022, 0x96: 0x2013, 0x97: 0x2014, 0x98: 0x02DC, 0x99: 0x2122, 0x9A: 0x0161, 0x9B: 0x203A,
	0x9C: 0x0153, 0x9E: 0x017E, 0x9F: 0x0178,
}

var maxEntityLen int

// extraEntities: in the WHATWG table but commented out of x/net/html's.
var extraEntities = map[string]string{"nGt;": "\u226B\u20D2", "nLt;": "\u226A\u20D2"}

func init() {
	e1, e2 := xhtml.EntityTable()
	for k := range e1 {
		if len(k) > maxEntityLen {
			maxEntityLen = len(k)
		}
	}
	for k := range e2 {
		if len(k) > maxEntityLen {
			maxEntityLen = len(k)
		}
	}
}

// charRef consumes a character reference; t.pos is just after '&'.
// On return t.pos is after whatever was consumed and t.state == t.ret.
func (t *tokenizer) charRef() {
	in := t.in
	p := t.pos
	if p < len(in) && isAlnum(in[p]) {
		// named character reference: longest match
		e1, e2 := xhtml.EntityTable()
		max := maxEntityLen
		if p+max > len(in) {
			max = len(in) - p
		}
		for l := max; l >= 1; l-- {
			name := string(in[p : p+l])
			var dec string
			if r, ok := e1[name]; ok {
				dec = string(r)
			} else if r2, ok := e2[name]; ok {
				dec = string(r2[0]) + string(r2[1])
			} else if x, ok := extraEntities[name]; ok {
				dec = x
			} else {
				continue
			}
			if t.inAttrRet() && name[len(name)-1] != ';' && p+l < len(in) && (in[p+l] == '=' || isAlnum(in[p+l])) {
				// historical: not decoded
				t.flushRef("&" + name)
				t.pos = p + l
				t.state = t.ret
				return
			}
			t.pos = p + l
			t.flushRef(dec)
			t.state = t.ret
			return
		}
		// no match: flush "&", then ambiguous ampersand state = the alnums are
		// handled as ordinary characters by the return state.
		t.flushRef("&")
		t.state = t.ret
		return
	}
	if p < len(in) && in[p] == '#' {
		q := p + 1
		hex := false
		if q < len(in) && (in[q] == 'x' || in[q] == 'X') {
			hex = true
			q++
		}
		ds := q
		code := 0
		for q < len(in) {
			c := in[q]
			var d int
			if hex && isHex(c) {
				if isDigit(c) {
					d = int(c - '0')
				} else {
					d = int(lower(c)-'a') + 10
				}
				if code <= 0x10FFFF {
					code = code*16 + d
				}
			} else if !hex && isDigit(c) {
				d = int(c - '0')
				if code <= 0x10FFFF {
					code = code*10 + d
				}
			} else {
				break
			}
			q++
		}
		if q == ds {
			// absence of digits: flush what was consumed ("&#" or "&#x")
			t.flushRef(string(in[p-1 : q]))
			t.pos = q
			t.state = t.ret
			return
		}
		if q < len(in) && in[q] == ';' {
			q++
		}
		var r rune
		switch {
		case code == 0, code > 0x10FFFF, code >= 0xD800 && code <= 0xDFFF:
			r = 0xFFFD
		default:
			if rr, ok := c1Replacements[code]; ok {
				r = rr
			} else {
				r = rune(code)
			}
		}
		t.pos = q
		t.flushRef(string(r))
		t.state = t.ret
		return
	}
	t.flushRef("&")
	t.state = t.ret
}

func (t *tokenizer) run() State {
	in := t.in
	for {
		eof := t.pos >= len(in)
		var c byte
		if !eof {
			c = in[t.pos]
		}
		switch t.state {
		case Data:
			if eof {
				t.flushText()
				return Data
			}
			switch c {
			case '&':
				t.pos++
				t.ret = Data
				t.charRef()
			case '<':
				t.curStart = t.pos
				t.pos++
				t.state = TagOpen
			default:
				t.emitByte(c, "data")
				t.pos++
			}
		case RCDATA:
			if eof {
				t.flushText()
				return RCDATA
			}
			switch c {
			case '&':
				t.pos++
				t.ret = RCDATA
				t.charRef()
			case '<':
				t.curStart = t.pos
				t.pos++
				t.state = RCDATALt
			case 0:
				t.emitStr(fffd, "rcdata")
				t.pos++
			default:
				t.emitByte(c, "rcdata")
				t.pos++
			}
		case RAWTEXT:
			if eof {
				t.flushText()
				return RAWTEXT
			}
			switch c {
			case '<':
				t.curStart = t.pos
				t.pos++
				t.state = RAWTEXTLt
			case 0:
				t.emitStr(fffd, "rawtext")
				t.pos++
			default:
				t.emitByte(c, "rawtext")
				t.pos++
			}
		case ScriptData:
			if eof {
				t.flushText()
				return ScriptData
			}
			switch c {
			case '<':
				t.curStart = t.pos
				t.pos++
				t.state = ScriptLt
			case 0:
				t.emitStr(fffd, "script")
				t.pos++
			default:
				t.emitByte(c, "script")
				t.pos++
			}
		case PLAINTEXT:
			if eof {
				t.flushText()
				return PLAINTEXT
			}
			if c == 0 {
				t.emitStr(fffd, "plaintext")
			} else {
				t.emitByte(c, "plaintext")
			}
			t.pos++
		case TagOpen:
			switch {
			case eof:
				t.emitStr("<", "data")
				t.flushText()
				return TagOpen
			case c == '!':
				t.pos++
				t.state = MarkupDeclOpen
			case c == '/':
				t.pos++
				t.state = EndTagOpen
			case isAlpha(c):
				t.newTag(StartTag)
				t.state = TagName
			case c == '?':
				t.cur = Token{Type: Comment, Start: t.curStart}
				t.state = BogusComment
			default:
				t.emitStr("<", "data")
				t.state = Data
			}
		case EndTagOpen:
			switch {
			case eof:
				t.emitStr("</", "data")
				t.flushText()
				return EndTagOpen
			case isAlpha(c):
				t.newTag(EndTag)
				t.state = TagName
			case c == '>':
				t.pos++
				t.state = Data
			default:
				t.cur = Token{Type: Comment, Start: t.curStart}
				t.state = BogusComment
			}
		case TagName:
			switch {
			case eof:
				t.flushText()
				return TagName
			case isWS(c):
				t.pos++
				t.state = BeforeAttrName
			case c == '/':
				t.pos++
				t.state = SelfClosingStartTag
			case c == '>':
				t.pos++
				t.state = Data
				t.emitTag()
			case c == 0:
				t.cur.Name += fffd
				t.pos++
			default:
				t.cur.Name += string([]byte{lower(c)})
				t.pos++
			}
		case RCDATALt, RAWTEXTLt:
			base := RCDATA
			mode := "rcdata"
			if t.state == RAWTEXTLt {
				base, mode = RAWTEXT, "rawtext"
			}
			if !eof && c == '/' {
				t.tmp = t.tmp[:0]
				t.pos++
				if base == RAWTEXT {
					t.state = RAWTEXTEndTagOpen
				} else {
					t.state = RCDATAEndTagOpen
				}
			} else {
				t.emitStr("<", mode)
				t.state = base
			}
		case RCDATAEndTagOpen, RAWTEXTEndTagOpen, ScriptEndTagOpen, ScriptEscapedEndTagOpen:
			var base, next State
			var mode string
			switch t.state {
			case RCDATAEndTagOpen:
				base, next, mode = RCDATA, RCDATAEndTagName, "rcdata"
			case RAWTEXTEndTagOpen:
				base, next, mode = RAWTEXT, RAWTEXTEndTagName, "rawtext"
			case ScriptEndTagOpen:
				base, next, mode = ScriptData, ScriptEndTagName, "script"
			default:
				base, next, mode = ScriptEscaped, ScriptEscapedEndTagName, "script"
			}
			if !eof && isAlpha(c) {
				t.newTag(EndTag)
				t.state = next
			} else {
				t.emitStr("</", mode)
				t.state = base
			}
		case RCDATAEndTagName, RAWTEXTEndTagName, ScriptEndTagName, ScriptEscapedEndTagName:
			var base State
			var mode string
			switch t.state {
			case RCDATAEndTagName:
				base, mode = RCDATA, "rcdata"
			case RAWTEXTEndTagName:
				base, mode = RAWTEXT, "rawtext"
			case ScriptEndTagName:
				base, mode = ScriptData, "script"
			default:
				base, mode = ScriptEscaped, "script"
			}
			handled := false
			if !eof {
				switch {
				case isWS(c):
					if t.appropriateEnd() {
						t.pos++
						t.state = BeforeAttrName
						handled = true
					}
				case c == '/':
					if t.appropriateEnd() {
						t.pos++
						t.state = SelfClosingStartTag
						handled = true
					}
				case c == '>':
					if t.appropriateEnd() {
						t.pos++
						t.state = Data
						t.emitTag()
						handled = true
					}
				case isAlpha(c):
					t.cur.Name += string([]byte{lower(c)})
					t.tmp = append(t.tmp, c)
					t.pos++
					handled = true
				}
			}
			if !handled {
				t.emitStr("</"+string(t.tmp), mode)
				t.state = base
			}
		case ScriptLt:
			switch {
			case !eof && c == '/':
				t.tmp = t.tmp[:0]
				t.pos++
				t.state = ScriptEndTagOpen
			case !eof && c == '!':
				t.pos++
				t.state = ScriptEscapeStart
				t.emitStr("<!", "script")
			default:
				t.emitStr("<", "script")
				t.state = ScriptData
			}
		case ScriptEscapeStart:
			if !eof && c == '-' {
				t.pos++
				t.state = ScriptEscapeStartDash
				t.emitStr("-", "script")
			} else {
				t.state = ScriptData
			}
		case ScriptEscapeStartDash:
			if !eof && c == '-' {
				t.pos++
				t.state = ScriptEscapedDashDash
				t.emitStr("-", "script")
			} else {
				t.state = ScriptData
			}
		case ScriptEscaped:
			switch {
			case eof:
				t.flushText()
				return ScriptEscaped
			case c == '-':
				t.pos++
				t.state = ScriptEscapedDash
				t.emitStr("-", "script")
			case c == '<':
				t.curStart = t.pos
				t.pos++
				t.state = ScriptEscapedLt
			case c == 0:
				t.emitStr(fffd, "script")
				t.pos++
			default:
				t.emitByte(c, "script")
				t.pos++
			}
		case ScriptEscapedDash:
			switch {
			case eof:
				t.flushText()
				return ScriptEscapedDash
			case c == '-':
				t.pos++
				t.state = ScriptEscapedDashDash
				t.emitStr("-", "script")
			case c == '<':
				t.curStart = t.pos
				t.pos++
				t.state = ScriptEscapedLt
			case c == 0:
				t.state = ScriptEscaped
				t.emitStr(fffd, "script")
				t.pos++
			default:
				t.state = ScriptEscaped
				t.emitByte(c, "script")
				t.pos++
			}
		case ScriptEscapedDashDash:
			switch {
			case eof:
				t.flushText()
				return ScriptEscapedDashDash
			case c == '-':
				t.emitStr("-", "script")
				t.pos++
			case c == '<':
				t.curStart = t.pos
				t.pos++
				t.state = ScriptEscapedLt
			case c == '>':
				t.state = ScriptData
				t.emitStr(">", "script")
				t.pos++
			case c == 0:
				t.state = ScriptEscaped
				t.emitStr(fffd, "script")
				t.pos++
			default:
				t.state = ScriptEscaped
				t.emitByte(c, "script")
				t.pos++
			}
		case ScriptEscapedLt:
			switch {
			case !eof && c == '/':
				t.tmp = t.tmp[:0]
				t.pos++
				t.state = ScriptEscapedEndTagOpen
			case !eof && isAlpha(c):
				t.tmp = t.tmp[:0]
				t.emitStr("<", "script")
				t.state = ScriptDoubleEscapeStart
			default:
				t.emitStr("<", "script")
				t.state = ScriptEscaped
			}
		case ScriptDoubleEscapeStart, ScriptDoubleEscapeEnd:
			start := t.state == ScriptDoubleEscapeStart
			switch {
			case !eof && (isWS(c) || c == '/' || c == '>'):
				if strings.EqualFold(string(t.tmp), "script") == start {
					t.state = ScriptDoubleEscaped
				} else {
					t.state = ScriptEscaped
				}
				t.emitByte(c, "script")
				t.pos++
			case !eof && isAlpha(c):
				t.tmp = append(t.tmp, lower(c))
				t.emitByte(c, "script")
				t.pos++
			default:
				if start {
					t.state = ScriptEscaped
				} else {
					t.state = ScriptDoubleEscaped
				}
			}
		case ScriptDoubleEscaped:
			switch {
			case eof:
				t.flushText()
				return ScriptDoubleEscaped
			case c == '-':
				t.pos++
				t.state = ScriptDoubleEscapedDash
				t.emitStr("-", "script")
			case c == '<':
				t.pos++
				t.state = ScriptDoubleEscapedLt
				t.emitStr("<", "script")
			case c == 0:
				t.emitStr(fffd, "script")
				t.pos++
			default:
				t.emitByte(c, "script")
				t.pos++
			}
		case ScriptDoubleEscapedDash:
			switch {
			case eof:
				t.flushText()
				return ScriptDoubleEscapedDash
			case c == '-':
				t.pos++
				t.state = ScriptDoubleEscapedDashDash
				t.emitStr("-", "script")
			case c == '<':
				t.pos++
				t.state = ScriptDoubleEscapedLt
				t.emitStr("<", "script")
			case c == 0:
				t.state = ScriptDoubleEscaped
				t.emitStr(fffd, "script")
				t.pos++
			default:
				t.state = ScriptDoubleEscaped
				t.emitByte(c, "script")
				t.pos++
			}
		case ScriptDoubleEscapedDashDash:
			switch {
			case eof:
				t.flushText()
				return ScriptDoubleEscapedDashDash
			case c == '-':
				t.emitStr("-", "script")
				t.pos++
			case c == '<':
				t.pos++
				t.state = ScriptDoubleEscapedLt
				t.emitStr("<", "script")
			case c == '>':
				t.state = ScriptData
				t.emitStr(">", "script")
				t.pos++
			case c == 0:
				t.state = ScriptDoubleEscaped
				t.emitStr(fffd, "script")
				t.pos++
			default:
				t.state = ScriptDoubleEscaped
				t.emitByte(c, "script")
				t.pos++
			}
		case ScriptDoubleEscapedLt:
			if !eof && c == '/' {
				t.tmp = t.tmp[:0]
				t.pos++
				t.state = ScriptDoubleEscapeEnd
				t.emitStr("/", "script")
			} else {
				t.state = ScriptDoubleEscaped
			}
		case BeforeAttrName:
			switch {
			case eof || c == '/' || c == '>':
				t.state = AfterAttrName
			case isWS(c):
				t.pos++
			case c == '=':
				t.startAttr()
				t.attr.Name = "="
				t.pos++
				t.state = AttrName
			default:
				t.startAttr()
				t.state = AttrName
			}
		case AttrName:
			switch {
			case eof || isWS(c) || c == '/' || c == '>':
				t.state = AfterAttrName
			case c == '=':
				t.pos++
				t.state = BeforeAttrValue
			case c == 0:
				t.attr.Name += fffd
				t.pos++
			default:
				t.attr.Name += string([]byte{lower(c)})
				t.pos++
			}
		case AfterAttrName:
			switch {
			case eof:
				t.flushText()
				return AfterAttrName
			case isWS(c):
				t.pos++
			case c == '/':
				t.pos++
				t.state = SelfClosingStartTag
			case c == '=':
				t.pos++
				t.state = BeforeAttrValue
			case c == '>':
				t.pos++
				t.state = Data
				t.emitTag()
			default:
				t.startAttr()
				t.state = AttrName
			}
		case BeforeAttrValue:
			switch {
			case !eof && isWS(c):
				t.pos++
			case !eof && c == '"':
				t.pos++
				t.attr.Quote = '"'
				t.attr.RawStart = t.pos
				t.attr.RawEnd = t.pos
				t.state = AttrValueDQ
			case !eof && c == '\'':
				t.pos++
				t.attr.Quote = '\''
				t.attr.RawStart = t.pos
				t.attr.RawEnd = t.pos
				t.state = AttrValueSQ
			case !eof && c == '>':
				t.pos++
				t.state = Data
				t.emitTag()
			default:
				t.attr.RawStart = t.pos
				t.attr.RawEnd = t.pos
				t.state = AttrValueUnq
			}
		case AttrValueDQ, AttrValueSQ:
			q := byte('"')
			if t.state == AttrValueSQ {
				q = '\''
			}
			switch {
			case eof:
				t.flushText()
				return t.state
			case c == q:
				t.attr.RawEnd = t.pos
				t.pos++
				t.state = AfterAttrValueQuoted
			case c == '&':
				t.ret = t.state
				t.pos++
				t.charRef()
				t.attr.RawEnd = t.pos
			case c == 0:
				t.attr.Value += fffd
				t.pos++
				t.attr.RawEnd = t.pos
			default:
				t.attr.Value += string([]byte{c})
				t.pos++
				t.attr.RawEnd = t.pos
			}
		case AttrValueUnq:
			switch {
			case eof:
				t.flushText()
				return AttrValueUnq
			case isWS(c):
				t.attr.RawEnd = t.pos
				t.pos++
				t.state = BeforeAttrName
			case c == '&':
				t.ret = AttrValueUnq
				t.pos++
				t.charRef()
				t.attr.RawEnd = t.pos
			case c == '>':
				t.attr.RawEnd = t.pos
				t.pos++
				t.state = Data
				t.emitTag()
			case c == 0:
				t.attr.Value += fffd
				t.pos++
				t.attr.RawEnd = t.pos
			default:
				t.attr.Value += string([]byte{c})
				t.pos++
				t.attr.RawEnd = t.pos
			}
		case AfterAttrValueQuoted:
			switch {
			case eof:
				t.flushText()
				return AfterAttrValueQuoted
			case isWS(c):
				t.pos++
				t.state = BeforeAttrName
			case c == '/':
				t.pos++
				t.state = SelfClosingStartTag
			case c == '>':
				t.pos++
				t.state = Data
				t.emitTag()
			default:
				t.state = BeforeAttrName
			}
		case SelfClosingStartTag:
			switch {
			case eof:
				t.flushText()
				return SelfClosingStartTag
			case c == '>':
				t.cur.SelfClosing = true
				t.pos++
				t.state = Data
				t.emitTag()
			default:
				t.state = BeforeAttrName
			}
		case BogusComment:
			switch {
			case eof:
				t.emitComment()
				return BogusComment
			case c == '>':
				t.pos++
				t.state = Data
				t.emitComment()
			case c == 0:
				t.cur.Data += fffd
				t.pos++
			default:
				t.cur.Data += string([]byte{c})
				t.pos++
			}
		case MarkupDeclOpen:
			switch {
			case t.pos+2 <= len(in) && in[t.pos] == '-' && in[t.pos+1] == '-':
				t.pos += 2
				t.cur = Token{Type: Comment, Start: t.curStart}
				t.state = CommentStart
			case t.matchCI("DOCTYPE"):
				t.pos += 7
				t.state = DoctypeSt
			case t.pos+7 <= len(in) && string(in[t.pos:t.pos+7]) == "[CDATA[":
				t.pos += 7
				if t.opt.Foreign {
					t.state = CDATASection
				} else {
					t.cur = Token{Type: Comment, Start: t.curStart, Data: "[CDATA["}
					t.state = BogusComment
				}
			default:
				t.cur = Token{Type: Comment, Start: t.curStart}
				t.state = BogusComment
			}
		case CommentStart:
			switch {
			case !eof && c == '-':
				t.pos++
				t.state = CommentStartDash
			case !eof && c == '>':
				t.pos++
				t.state = Data
				t.emitComment()
			default:
				t.state = CommentSt
			}
		case CommentStartDash:
			switch {
			case eof:
				t.emitComment()
				return CommentStartDash
			case c == '-':
				t.pos++
				t.state = CommentEnd
			case c == '>':
				t.pos++
				t.state = Data
				t.emitComment()
			default:
				t.cur.Data += "-"
				t.state = CommentSt
			}
		case CommentSt:
			switch {
			case eof:
				t.emitComment()
				return CommentSt
			case c == '<':
				t.cur.Data += "<"
				t.pos++
				t.state = CommentLt
			case c == '-':
				t.pos++
				t.state = CommentEndDash
			case c == 0:
				t.cur.Data += fffd
				t.pos++
			default:
				t.cur.Data += string([]byte{c})
				t.pos++
			}
		case CommentLt:
			switch {
			case !eof && c == '!':
				t.cur.Data += "!"
				t.pos++
				t.state = CommentLtBang
			case !eof && c == '<':
				t.cur.Data += "<"
				t.pos++
			default:
				t.state = CommentSt
			}
		case CommentLtBang:
			if !eof && c == '-' {
				t.pos++
				t.state = CommentLtBangDash
			} else {
				t.state = CommentSt
			}
		case CommentLtBangDash:
			if !eof && c == '-' {
				t.pos++
				t.state = CommentLtBangDashDash
			} else {
				t.state = CommentEndDash
			}
		case CommentLtBangDashDash:
			t.state = CommentEnd
		case CommentEndDash:
			switch {
			case eof:
				t.emitComment()
				return CommentEndDash
			case c == '-':
				t.pos++
				t.state = CommentEnd
			default:
				t.cur.Data += "-"
				t.state = CommentSt
			}
		case CommentEnd:
			switch {
			case eof:
				t.emitComment()
				return CommentEnd
			case c == '>':
				t.pos++
				t.state = Data
				t.emitComment()
			case c == '!':
				t.pos++
				t.state = CommentEndBang
			case c == '-':
				t.cur.Data += "-"
				t.pos++
			default:
				t.cur.Data += "--"
				t.state = CommentSt
			}
		case CommentEndBang:
			switch {
			case eof:
				t.emitComment()
				return CommentEndBang
			case c == '-':
				t.cur.Data += "--!"
				t.pos++
				t.state = CommentEndDash
			case c == '>':
				t.pos++
				t.state = Data
				t.emitComment()
			default:
				t.cur.Data += "--!"
				t.state = CommentSt
			}
		case DoctypeSt:
			switch {
			case eof:
				t.cur = Token{Type: Doctype, Start: t.curStart, ForceQuirks: true}
				t.emitComment()
				return DoctypeSt
			case isWS(c):
				t.pos++
				t.state = BeforeDoctypeName
			default:
				t.state = BeforeDoctypeName
			}
		case BeforeDoctypeName:
			switch {
			case eof:
				t.cur = Token{Type: Doctype, Start: t.curStart, ForceQuirks: true}
				t.emitComment()
				return BeforeDoctypeName
			case isWS(c):
				t.pos++
			case c == '>':
				t.cur = Token{Type: Doctype, Start: t.curStart, ForceQuirks: true}
				t.pos++
				t.state = Data
				t.emitComment()
			case c == 0:
				t.cur = Token{Type: Doctype, Start: t.curStart, Name: fffd}
				t.pos++
				t.state = DoctypeName
			default:
				t.cur = Token{Type: Doctype, Start: t.curStart, Name: string([]byte{lower(c)})}
				t.pos++
				t.state = DoctypeName
			}
		case DoctypeName:
			switch {
			case eof:
				t.cur.ForceQuirks = true
				t.emitComment()
				return DoctypeName
			case isWS(c):
				t.pos++
				t.state = AfterDoctypeName
			case c == '>':
				t.pos++
				t.state = Data
				t.emitComment()
			case c == 0:
				t.cur.Name += fffd
				t.pos++
			default:
				t.cur.Name += string([]byte{lower(c)})
				t.pos++
			}
		case AfterDoctypeName:
			switch {
			case eof:
				t.cur.ForceQuirks = true
				t.emitComment()
				return AfterDoctypeName
			case isWS(c):
				t.pos++
			case c == '>':
				t.pos++
				t.state = Data
				t.emitComment()
			case t.matchCI("PUBLIC"):
				t.pos += 6
				t.state = AfterDoctypePublicKeyword
			case t.matchCI("SYSTEM"):
				t.pos += 6
				t.state = AfterDoctypeSystemKeyword
			default:
				t.cur.ForceQuirks = true
				t.state = BogusDoctype
			}
		case AfterDoctypePublicKeyword, BeforeDoctypePublicID:
			switch {
			case eof:
				t.cur.ForceQuirks = true
				t.emitComment()
				return t.state
			case isWS(c):
				t.pos++
				t.state = BeforeDoctypePublicID
			case c == '"' || c == '\'':
				s := ""
				t.cur.PublicID = &s
				t.pos++
				if c == '"' {
					t.state = DoctypePublicIDDQ
				} else {
					t.state = DoctypePublicIDSQ
				}
			case c == '>':
				t.cur.ForceQuirks = true
				t.pos++
				t.state = Data
				t.emitComment()
			default:
				t.cur.ForceQuirks = true
				t.state = BogusDoctype
			}
		case DoctypePublicIDDQ, DoctypePublicIDSQ:
			q := byte('"')
			if t.state == DoctypePublicIDSQ {
				q = '\''
			}
			switch {
			case eof:
				t.cur.ForceQuirks = true
				t.emitComment()
				return t.state
			case c == q:
				t.pos++
				t.state = AfterDoctypePublicID
			case c == 0:
				*t.cur.PublicID += fffd
				t.pos++
			case c == '>':
				t.cur.ForceQuirks = true
				t.pos++
				t.state = Data
				t.emitComment()
			default:
				*t.cur.PublicID += string([]byte{c})
				t.pos++
			}
		case AfterDoctypePublicID, BetweenDoctypePublicAndSystem:
			switch {
			case eof:
				t.cur.ForceQuirks = true
				t.emitComment()
				return t.state
			case isWS(c):
				t.pos++
				t.state = BetweenDoctypePublicAndSystem
			case c == '>':
				t.pos++
				t.state = Data
				t.emitComment()
			case c == '"' || c == '\'':
				s := ""
				t.cur.SystemID = &s
				t.pos++
				if c == '"' {
					t.state = DoctypeSystemIDDQ
				} else {
					t.state = DoctypeSystemIDSQ
				}
			default:
				t.cur.ForceQuirks = true
				t.state = BogusDoctype
			}
		case AfterDoctypeSystemKeyword, BeforeDoctypeSystemID:
			switch {
			case eof:
				t.cur.ForceQuirks = true
				t.emitComment()
				return t.state
			case isWS(c):
				t.pos++
				t.state = BeforeDoctypeSystemID
			case c == '"' || c == '\'':
				s := ""
				t.cur.SystemID = &s
				t.pos++
				if c == '"' {
					t.state = DoctypeSystemIDDQ
				} else {
					t.state = DoctypeSystemIDSQ
				}
			case c == '>':
				t.cur.ForceQuirks = true
				t.pos++
				t.state = Data
				t.emitComment()
			default:
				t.cur.ForceQuirks = true
				t.state = BogusDoctype
			}
		case DoctypeSystemIDDQ, DoctypeSystemIDSQ:
			q := byte('"')
			if t.state == DoctypeSystemIDSQ {
				q = '\''
			}
			switch {
			case eof:
				t.cur.ForceQuirks = true
				t.emitComment()
				return t.state
			case c == q:
				t.pos++
				t.state = AfterDoctypeSystemID
			case c == 0:
				*t.cur.SystemID += fffd
				t.pos++
			case c == '>':
				t.cur.ForceQuirks = true
				t.pos++
				t.state = Data
				t.emitComment()
			default:
				*t.cur.SystemID += string([]byte{c})
				t.pos++
			}
		case AfterDoctypeSystemID:
			switch {
			case eof:
				t.cur.ForceQuirks = true
				t.emitComment()
				return t.state
			case isWS(c):
				t.pos++
			case c == '>':
				t.pos++
				t.state = Data
				t.emitComment()
			default:
				t.state = BogusDoctype
			}
		case BogusDoctype:
			switch {
			case eof:
				t.emitComment()
				return BogusDoctype
			case c == '>':
				t.pos++
				t.state = Data
				t.emitComment()
			default:
				t.pos++
			}
		case CDATASection:
			switch {
			case eof:
				t.flushText()
				return CDATASection
			case c == ']':
				t.pos++
				t.state = CDATABracket
			default:
				t.emitByte(c, "cdata")
				t.pos++
			}
		case CDATABracket:
			if !eof && c == ']' {
				t.pos++
				t.state = CDATAEnd
			} else {
				t.emitStr("]", "cdata")
				t.state = CDATASection
			}
		case CDATAEnd:
			switch {
			case !eof && c == ']':
				t.emitStr("]", "cdata")
				t.pos++
			case !eof && c == '>':
				t.pos++
				t.state = Data
			default:
				t.emitStr("]]", "cdata")
				t.state = CDATASection
			}
		default:
			panic("htmltok: unhandled state " + t.state.String())
		}
	}
}

// ValidUTF8 reports whether s is valid UTF-8 (helper for callers).
func ValidUTF8(s string) bool { return utf8.ValidString(s) }

// DecodeRefs decodes the character references of s as the tokenizer does in an
// attribute value (attr=true) or in text (attr=false). NUL is left alone.
func DecodeRefs(s string, attr bool) string {
	t := &tokenizer{in: []byte(s)}
	ret := Data
	if attr {
		ret = AttrValueDQ
	}
	var out []byte
	for t.pos < len(t.in) {
		c := t.in[t.pos]
		if c != '&' {
			out = append(out, c)
			t.pos++
			continue
		}
		t.pos++
		t.ret = ret
		t.attr.Value = ""
		t.textBuf = t.textBuf[:0]
		t.charRef()
		if attr {
			out = append(out, t.attr.Value...)
		} else {
			out = append(out, t.textBuf...)
		}
	}
	return string(out)
}
