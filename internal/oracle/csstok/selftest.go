package csstok

import (
	"fmt"
	"strings"
)

func sig(ts []Token) string {
	var p []string
	for _, t := range ts {
		s := t.Kind.String()
		switch t.Kind {
		case Ident, Function, AtKeyword, Hash, String, URL, Delim, Number, Percentage:
			s += "(" + t.Value + ")"
		case Dimension:
			s += "(" + t.Value + "," + t.Unit + ")"
		}
		if t.Unterminated {
			s += "!eof"
		}
		p = append(p, s)
	}
	return strings.Join(p, " ")
}

// SelfTest checks the tokenizer on cases derived by hand from CSS Syntax 3 §4
// (each comment names the rule exercised) and the parser on small examples.
func SelfTest() (cases int, failures []string) {
	tk := []struct{ in, want string }{
		{`a`, `ident(a)`},
		{`-a`, `ident(-a)`}, {`--a`, `ident(--a)`}, {`-`, `delim(-)`}, {`-1`, `number(-1)`}, {`-->`, `CDC`},
		{`a(`, `function(a)`}, {`url(x)`, `url(x)`}, {`url( x )`, `url(x)`}, {`URL(x`, `url(x)!eof`},
		{`url("x")`, `function(url) string(x) )`}, {`url( 'x')`, `function(url) whitespace string(x) )`},
		{`url(x y)`, `bad-url`}, {`url(x"y)`, `bad-url`}, {`url(x(y)`, `bad-url`}, {`url(x\)y)`, `url(x)y)`},
		{"url(x\\\ny)", `bad-url`},
		{`"a\"b"`, `string(a"b)`}, {"\"a\nb\"", `bad-string whitespace ident(b) string()!eof`}, {`"a`, `string(a)!eof`},
		{"\"a\\\nb\"", `string(ab)`}, {"'a\fb'", `bad-string whitespace ident(b) string()!eof`},
		{`\41 b`, `ident(Ab)`}, {`\000041b`, `ident(Ab)`}, {`\0`, "ident(�)"}, {`\`, "ident(�)"}, {"\\\n", `delim(\) whitespace`},
		{`#a`, `hash(a)`}, {`#`, `delim(#)`}, {`# a`, `delim(#) whitespace ident(a)`},
		{`@a`, `at-keyword(a)`}, {`@`, `delim(@)`}, {`@-`, `delim(@) delim(-)`}, {`@--`, `at-keyword(--)`},
		{`1e3`, `number(1e3)`}, {`1e`, `dimension(1,e)`}, {`1.`, `number(1) delim(.)`}, {`.5`, `number(.5)`}, {`+.5e-2x`, `dimension(+.5e-2,x)`},
		{`1%`, `percentage(1)`}, {`1px`, `dimension(1,px)`}, {`1-`, `number(1) delim(-)`}, {`1--a`, `dimension(1,--a)`},
		{`/* x */a`, `comment ident(a)`}, {`/* x`, `comment!eof`}, {`/ *`, `delim(/) whitespace delim(*)`},
		{`<!--`, `CDO`}, {`<!-`, `delim(<) delim(!) delim(-)`},
		{`a:b;c{d}[e](f)`, `ident(a) colon ident(b) semicolon ident(c) { ident(d) } [ ident(e) ] ( ident(f) )`},
		{"a\x00b", "ident(a�b)"}, {"a\r\nb", `ident(a) whitespace ident(b)`}, {"\xc3\xa9", "ident(\xc3\xa9)"},
		{`a,b`, `ident(a) comma ident(b)`}, {`u+1`, `ident(u) number(+1)`}, {`!important`, `delim(!) ident(important)`},
	}
	for _, c := range tk {
		cases++
		if got := sig(Tokenize(c.in)); got != c.want {
			failures = append(failures, fmt.Sprintf("tokenize %q: got %s want %s", c.in, got, c.want))
		}
	}
	// declaration lists
	dl := []struct {
		in    string
		names string
		errs  int
	}{
		{`color:red;width:1px;`, `color,width`, 0},
		{`color:red\;width:1px;`, `color`, 0},
		{`color:[;width:1px;`, `color`, 1},
		{`color:(;width:1px;`, `color`, 1},
		{`color:url(;width:1px;`, `color`, 0},
		{`color:"a;width:1px;`, `color`, 0},
		{`color:red;;width:1px`, `color,width`, 0},
		{`color red;width:1px`, `width`, 1},
		{`@x y;width:1px`, `width`, 0},
		{`a:b{c:d;e:f};g:h`, `a,g`, 0},
		{`a:b}c:d`, `a`, 0},
		{`1a:b;c:d`, `c`, 1},
		{`a : b !important ;`, `a`, 0},
		{`a:b/*;*/c;d:e`, `a,d`, 0},
	}
	for _, c := range dl {
		cases++
		d := ParseDeclarations(c.in)
		var names []string
		for _, x := range d.Decls {
			names = append(names, x.Name)
		}
		if strings.Join(names, ",") != c.names || len(d.Errors) != c.errs {
			failures = append(failures, fmt.Sprintf("declarations %q: got %v errors %v, want %s with %d errors", c.in, names, d.Errors, c.names, c.errs))
		}
	}
	ss := []struct {
		in    string
		rules int
		errs  int
	}{
		{`a{b:c}`, 1, 0}, {`a{b:c}d{e:f}`, 2, 0}, {`a{}b{}c{`, 3, 1}, {`a`, 0, 1}, {`@x;a{}`, 2, 0}, {`@x{a{}}b{}`, 2, 0},
		{`a[b{]{c}`, 0, 3}, {`a"{"{}`, 1, 0}, {"a\"\n{}b{}", 2, 0}, {`a(b{c}d){}`, 1, 0}, {`a{b}}c{}`, 2, 0}, {`<!--a{}-->b{}`, 2, 0},
		{`a/*{}*/{}`, 1, 0}, {`a;b{}`, 1, 0}, {`url(x"){}input{}z{"y)`, 3, 1},
	}
	for _, c := range ss {
		cases++
		s := ParseStylesheet(c.in)
		if len(s.Rules) != c.rules || len(s.Errors) != c.errs {
			failures = append(failures, fmt.Sprintf("stylesheet %q: got %d rules errors %v, want %d rules %d errors", c.in, len(s.Rules), s.Errors, c.rules, c.errs))
		}
	}
	return
}
