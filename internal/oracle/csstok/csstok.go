// Package csstok is oracle O4: the CSS Syntax Module Level 3 tokenizer (§4) and
// the parser entry points "parse a list of declarations" and "parse a
// stylesheet" (§5), written from the specification. It works on bytes: every
// byte >= 0x80 is a non-ASCII (name-start) code point, which is exactly how the
// specification classifies all code points above U+007F.
package csstok

import "strings"

type Kind int

const (
	Ident Kind = iota
	Function
	AtKeyword
	Hash
	String
	BadString
	URL
	BadURL
	Delim
	Number
	Percentage
	Dimension
	Whitespace
	CDO
	CDC
	Colon
	Semicolon
	Comma
	LBracket
	RBracket
	LParen
	RParen
	LBrace
	RBrace
	CommentTok // not a token in the spec (comments are dropped); recorded so callers can see them
)

var kindNames = [...]string{"ident", "function", "at-keyword", "hash", "string", "bad-string", "url", "bad-url", "delim", "number",
	"percentage", "dimension", "whitespace", "CDO", "CDC", "colon", "semicolon", "comma", "[", "]", "(", ")", "{", "}", "comment"}

func (k Kind) String() string { return kindNames[k] }

type Token struct {
	Kind  Kind
	Value string // unescaped name / string / url value; the delim character; raw number text
	Unit  string // dimension unit
	Raw   string // source text
	// Unterminated: string/url/comment ended by EOF (a parse error)
	Unterminated bool
}

// Preprocess: CR, FF, CRLF -> LF; NUL -> U+FFFD (§3.3).
func Preprocess(s string) string {
	var b strings.Builder
	for i := 0; i < len(s); i++ {
		switch c := s[i]; c {
		case '\r':
			b.WriteByte('\n')
			if i+1 < len(s) && s[i+1] == '\n' {
				i++
			}
		case '\f':
			b.WriteByte('\n')
		case 0:
			b.WriteString("�")
		default:
			b.WriteByte(c)
		}
	}
	return b.String()
}

type lexer struct {
	s   string
	pos int
}

func (l *lexer) peek(n int) int {
	if l.pos+n < len(l.s) {
		return int(l.s[l.pos+n])
	}
	return -1
}

func isDigit(c int) bool    { return c >= '0' && c <= '9' }
func isHexDigit(c int) bool { return isDigit(c) || c >= 'a' && c <= 'f' || c >= 'A' && c <= 'F' }
func isNameStart(c int) bool {
	return c >= 'a' && c <= 'z' || c >= 'A' && c <= 'Z' || c == '_' || c >= 0x80
}
func isName(c int) bool { return isNameStart(c) || isDigit(c) || c == '-' }
func isWS(c int) bool   { return c == '\n' || c == '\t' || c == ' ' }
func isNonPrintable(c int) bool {
	return c >= 0 && c <= 8 || c == 0x0B || c >= 0x0E && c <= 0x1F || c == 0x7F
}
func validEscape(a, b int) bool { return a == '\\' && b != '\n' }
func wouldStartIdent(a, b, c int) bool {
	switch {
	case a == '-':
		return isNameStart(b) || b == '-' || validEscape(b, c)
	case isNameStart(a):
		return true
	case a == '\\':
		return validEscape(a, b)
	}
	return false
}
func startsNumber(a, b, c int) bool {
	switch {
	case a == '+' || a == '-':
		return isDigit(b) || b == '.' && isDigit(c)
	case a == '.':
		return isDigit(b)
	}
	return isDigit(a)
}

// consumeEscape: l.pos is just after the backslash.
func (l *lexer) consumeEscape() string {
	c := l.peek(0)
	if c < 0 {
		return "�"
	}
	if isHexDigit(c) {
		v := 0
		n := 0
		for n < 6 && isHexDigit(l.peek(0)) {
			d := l.peek(0)
			switch {
			case isDigit(d):
				d -= '0'
			case d >= 'a':
				d = d - 'a' + 10
			default:
				d = d - 'A' + 10
			}
			v = v*16 + d
			l.pos++
			n++
		}
		if isWS(l.peek(0)) {
			l.pos++
		}
		if v == 0 || v >= 0xD800 && v <= 0xDFFF || v > 0x10FFFF {
			return "�"
		}
		return string(rune(v))
	}
	// any other code point: take the whole UTF-8 sequence if it is one
	st := l.pos
	l.pos++
	for l.pos < len(l.s) && l.s[l.pos]&0xC0 == 0x80 && l.s[st] >= 0xC0 {
		l.pos++
	}
	return l.s[st:l.pos]
}

func (l *lexer) consumeName() string {
	var b strings.Builder
	for {
		c := l.peek(0)
		switch {
		case isName(c):
			b.WriteByte(byte(c))
			l.pos++
		case validEscape(c, l.peek(1)):
			l.pos++
			b.WriteString(l.consumeEscape())
		default:
			return b.String()
		}
	}
}

func (l *lexer) consumeNumber() string {
	st := l.pos
	if c := l.peek(0); c == '+' || c == '-' {
		l.pos++
	}
	for isDigit(l.peek(0)) {
		l.pos++
	}
	if l.peek(0) == '.' && isDigit(l.peek(1)) {
		l.pos += 2
		for isDigit(l.peek(0)) {
			l.pos++
		}
	}
	if c := l.peek(0); c == 'e' || c == 'E' {
		if isDigit(l.peek(1)) {
			l.pos += 2
			for isDigit(l.peek(0)) {
				l.pos++
			}
		} else if s := l.peek(1); (s == '+' || s == '-') && isDigit(l.peek(2)) {
			l.pos += 3
			for isDigit(l.peek(0)) {
				l.pos++
			}
		}
	}
	return l.s[st:l.pos]
}

func (l *lexer) consumeString(q int) Token {
	var b strings.Builder
	for {
		c := l.peek(0)
		switch {
		case c < 0:
			return Token{Kind: String, Value: b.String(), Unterminated: true}
		case c == q:
			l.pos++
			return Token{Kind: String, Value: b.String()}
		case c == '\n':
			return Token{Kind: BadString, Value: b.String()}
		case c == '\\':
			n := l.peek(1)
			if n < 0 {
				l.pos++
			} else if n == '\n' {
				l.pos += 2
			} else {
				l.pos++
				b.WriteString(l.consumeEscape())
			}
		default:
			b.WriteByte(byte(c))
			l.pos++
		}
	}
}

func (l *lexer) badURLRemnants() {
	for {
		c := l.peek(0)
		switch {
		case c < 0:
			return
		case c == ')':
			l.pos++
			return
		case validEscape(c, l.peek(1)):
			l.pos++
			l.consumeEscape()
		default:
			l.pos++
		}
	}
}

func (l *lexer) consumeURL() Token {
	var b strings.Builder
	for isWS(l.peek(0)) {
		l.pos++
	}
	for {
		c := l.peek(0)
		switch {
		case c == ')':
			l.pos++
			return Token{Kind: URL, Value: b.String()}
		case c < 0:
			return Token{Kind: URL, Value: b.String(), Unterminated: true}
		case isWS(c):
			for isWS(l.peek(0)) {
				l.pos++
			}
			if n := l.peek(0); n == ')' {
				l.pos++
				return Token{Kind: URL, Value: b.String()}
			} else if n < 0 {
				return Token{Kind: URL, Value: b.String(), Unterminated: true}
			}
			l.badURLRemnants()
			return Token{Kind: BadURL}
		case c == '"' || c == '\'' || c == '(' || isNonPrintable(c):
			l.badURLRemnants()
			return Token{Kind: BadURL}
		case c == '\\':
			if validEscape(c, l.peek(1)) {
				l.pos++
				b.WriteString(l.consumeEscape())
			} else {
				l.badURLRemnants()
				return Token{Kind: BadURL}
			}
		default:
			b.WriteByte(byte(c))
			l.pos++
		}
	}
}

func (l *lexer) identLike() Token {
	name := l.consumeName()
	if strings.EqualFold(name, "url") && l.peek(0) == '(' {
		l.pos++
		for isWS(l.peek(0)) && isWS(l.peek(1)) {
			l.pos++
		}
		a, b := l.peek(0), l.peek(1)
		if a == '"' || a == '\'' || isWS(a) && (b == '"' || b == '\'') {
			return Token{Kind: Function, Value: name}
		}
		return l.consumeURL()
	}
	if l.peek(0) == '(' {
		l.pos++
		return Token{Kind: Function, Value: name}
	}
	return Token{Kind: Ident, Value: name}
}

func (l *lexer) numeric() Token {
	num := l.consumeNumber()
	if wouldStartIdent(l.peek(0), l.peek(1), l.peek(2)) {
		return Token{Kind: Dimension, Value: num, Unit: l.consumeName()}
	}
	if l.peek(0) == '%' {
		l.pos++
		return Token{Kind: Percentage, Value: num}
	}
	return Token{Kind: Number, Value: num}
}

func (l *lexer) next() (Token, bool) {
	st := l.pos
	fin := func(t Token) (Token, bool) { t.Raw = l.s[st:l.pos]; return t, true }
	c := l.peek(0)
	if c < 0 {
		return Token{}, false
	}
	if c == '/' && l.peek(1) == '*' {
		l.pos += 2
		i := strings.Index(l.s[l.pos:], "*/")
		if i < 0 {
			l.pos = len(l.s)
			return fin(Token{Kind: CommentTok, Unterminated: true})
		}
		l.pos += i + 2
		return fin(Token{Kind: CommentTok})
	}
	switch {
	case isWS(c):
		for isWS(l.peek(0)) {
			l.pos++
		}
		return fin(Token{Kind: Whitespace})
	case c == '"' || c == '\'':
		l.pos++
		return fin(l.consumeString(c))
	case c == '#':
		l.pos++
		if isName(l.peek(0)) || validEscape(l.peek(0), l.peek(1)) {
			return fin(Token{Kind: Hash, Value: l.consumeName()})
		}
		return fin(Token{Kind: Delim, Value: "#"})
	case c == '(':
		l.pos++
		return fin(Token{Kind: LParen})
	case c == ')':
		l.pos++
		return fin(Token{Kind: RParen})
	case c == '+' || c == '.':
		if startsNumber(c, l.peek(1), l.peek(2)) {
			return fin(l.numeric())
		}
		l.pos++
		return fin(Token{Kind: Delim, Value: string(rune(c))})
	case c == ',':
		l.pos++
		return fin(Token{Kind: Comma})
	case c == '-':
		if startsNumber(c, l.peek(1), l.peek(2)) {
			return fin(l.numeric())
		}
		if l.peek(1) == '-' && l.peek(2) == '>' {
			l.pos += 3
			return fin(Token{Kind: CDC})
		}
		if wouldStartIdent(c, l.peek(1), l.peek(2)) {
			return fin(l.identLike())
		}
		l.pos++
		return fin(Token{Kind: Delim, Value: "-"})
	case c == ':':
		l.pos++
		return fin(Token{Kind: Colon})
	case c == ';':
		l.pos++
		return fin(Token{Kind: Semicolon})
	case c == '<':
		if l.peek(1) == '!' && l.peek(2) == '-' && l.peek(3) == '-' {
			l.pos += 4
			return fin(Token{Kind: CDO})
		}
		l.pos++
		return fin(Token{Kind: Delim, Value: "<"})
	case c == '@':
		l.pos++
		if wouldStartIdent(l.peek(0), l.peek(1), l.peek(2)) {
			return fin(Token{Kind: AtKeyword, Value: l.consumeName()})
		}
		return fin(Token{Kind: Delim, Value: "@"})
	case c == '[':
		l.pos++
		return fin(Token{Kind: LBracket})
	case c == ']':
		l.pos++
		return fin(Token{Kind: RBracket})
	case c == '{':
		l.pos++
		return fin(Token{Kind: LBrace})
	case c == '}':
		l.pos++
		return fin(Token{Kind: RBrace})
	case c == '\\':
		if validEscape(c, l.peek(1)) {
			return fin(l.identLike())
		}
		l.pos++
		return fin(Token{Kind: Delim, Value: "\\"})
	case isDigit(c):
		return fin(l.numeric())
	case isNameStart(c):
		return fin(l.identLike())
	}
	l.pos++
	return fin(Token{Kind: Delim, Value: string([]byte{byte(c)})})
}

// Tokenize preprocesses and tokenizes s (comments kept as CommentTok).
func Tokenize(s string) []Token {
	l := &lexer{s: Preprocess(s)}
	var out []Token
	for {
		t, ok := l.next()
		if !ok {
			return out
		}
		out = append(out, t)
	}
}

// ---- parsing ---------------------------------------------------------------

// Component is a component value: a preserved token, a simple block or a function.
type Component struct {
	Tok      Token
	Block    bool // simple block ({ [ ( ) or function
	Children []Component
	Closed   bool // the block met its ending token (false: ended by EOF)
}

type parser struct {
	toks []Token
	pos  int
	// Errors collected while parsing (parse errors in the sense of the spec).
	Errors []string
}

func (p *parser) peek() (Token, bool) {
	for p.pos < len(p.toks) && p.toks[p.pos].Kind == CommentTok {
		p.pos++
	}
	if p.pos < len(p.toks) {
		return p.toks[p.pos], true
	}
	return Token{}, false
}

func ending(k Kind) Kind {
	switch k {
	case LBrace:
		return RBrace
	case LBracket:
		return RBracket
	}
	return RParen
}

func (p *parser) component() Component {
	t, _ := p.peek()
	p.pos++
	switch t.Kind {
	case LBrace, LBracket, LParen, Function:
		c := Component{Tok: t, Block: true}
		end := ending(t.Kind)
		for {
			n, ok := p.peek()
			if !ok {
				p.Errors = append(p.Errors, "unclosed "+t.Kind.String())
				return c
			}
			if n.Kind == end {
				p.pos++
				c.Closed = true
				return c
			}
			c.Children = append(c.Children, p.component())
		}
	}
	return Component{Tok: t}
}

// Declaration is one parsed declaration.
type Declaration struct {
	Name      string
	Value     []Component
	Important bool
}

// DeclList is the result of "parse a list of declarations".
type DeclList struct {
	Decls   []Declaration
	AtRules int
	Errors  []string
}

func trimWS(cs []Component) []Component {
	for len(cs) > 0 && !cs[0].Block && cs[0].Tok.Kind == Whitespace {
		cs = cs[1:]
	}
	for len(cs) > 0 && !cs[len(cs)-1].Block && cs[len(cs)-1].Tok.Kind == Whitespace {
		cs = cs[:len(cs)-1]
	}
	return cs
}

// ParseDeclarations implements "parse a list of declarations" on s.
func ParseDeclarations(s string) DeclList {
	return parseDeclTokens(Tokenize(s))
}

func parseDeclTokens(toks []Token) DeclList {
	p := &parser{toks: toks}
	var out DeclList
	for {
		t, ok := p.peek()
		if !ok {
			break
		}
		switch t.Kind {
		case Whitespace, Semicolon:
			p.pos++
		case AtKeyword:
			out.AtRules++
			p.pos++
			for {
				n, ok := p.peek()
				if !ok {
					break
				}
				if n.Kind == Semicolon {
					p.pos++
					break
				}
				c := p.component()
				if c.Block && c.Tok.Kind == LBrace {
					break
				}
			}
		case Ident:
			var tmp []Component
			for {
				n, ok := p.peek()
				if !ok || n.Kind == Semicolon {
					break
				}
				tmp = append(tmp, p.component())
			}
			// consume a declaration from tmp
			name := tmp[0].Tok.Value
			rest := tmp[1:]
			for len(rest) > 0 && !rest[0].Block && rest[0].Tok.Kind == Whitespace {
				rest = rest[1:]
			}
			if len(rest) == 0 || rest[0].Block || rest[0].Tok.Kind != Colon {
				out.Errors = append(out.Errors, "declaration "+name+" without colon")
				continue
			}
			val := trimWS(rest[1:])
			d := Declaration{Name: name}
			if n := len(val); n >= 2 {
				// !important
				j := n - 1
				if !val[j].Block && val[j].Tok.Kind == Ident && strings.EqualFold(val[j].Tok.Value, "important") {
					k := j - 1
					for k >= 0 && !val[k].Block && val[k].Tok.Kind == Whitespace {
						k--
					}
					if k >= 0 && !val[k].Block && val[k].Tok.Kind == Delim && val[k].Tok.Value == "!" {
						d.Important = true
						val = trimWS(val[:k])
					}
				}
			}
			d.Value = val
			out.Decls = append(out.Decls, d)
		default:
			out.Errors = append(out.Errors, "unexpected "+t.Kind.String()+" in declaration list")
			for {
				n, ok := p.peek()
				if !ok || n.Kind == Semicolon {
					break
				}
				p.component()
			}
		}
	}
	out.Errors = append(out.Errors, p.Errors...)
	return out
}

// Rule is a qualified rule or at-rule of a stylesheet.
type Rule struct {
	At      bool
	Name    string // at-rule name
	Prelude []Component
	Block   *Component // nil: at-rule ended by ';' (or EOF)
}

// Stylesheet is the result of "parse a stylesheet" (top-level flag set).
type Stylesheet struct {
	Rules  []Rule
	Errors []string
}

func ParseStylesheet(s string) Stylesheet {
	p := &parser{toks: Tokenize(s)}
	var out Stylesheet
	for {
		t, ok := p.peek()
		if !ok {
			break
		}
		switch t.Kind {
		case Whitespace, CDO, CDC:
			p.pos++
		case AtKeyword:
			p.pos++
			r := Rule{At: true, Name: t.Value}
			for {
				n, ok := p.peek()
				if !ok {
					out.Errors = append(out.Errors, "at-rule ended by EOF")
					break
				}
				if n.Kind == Semicolon {
					p.pos++
					break
				}
				c := p.component()
				if c.Block && c.Tok.Kind == LBrace {
					r.Block = &c
					break
				}
				r.Prelude = append(r.Prelude, c)
			}
			out.Rules = append(out.Rules, r)
		default:
			r := Rule{}
			done := false
			for {
				_, ok := p.peek()
				if !ok {
					out.Errors = append(out.Errors, "qualified rule ended by EOF before its block")
					break
				}
				c := p.component()
				if c.Block && c.Tok.Kind == LBrace {
					r.Block = &c
					done = true
					break
				}
				r.Prelude = append(r.Prelude, c)
			}
			if done {
				out.Rules = append(out.Rules, r)
			}
		}
	}
	out.Errors = append(out.Errors, p.Errors...)
	return out
}

// Flatten returns the tokens of a component list in source order (blocks
// re-expanded with their opening and, if closed, ending tokens).
func Flatten(cs []Component) []Token {
	var out []Token
	for _, c := range cs {
		out = append(out, c.Tok)
		if c.Block {
			out = append(out, Flatten(c.Children)...)
			if c.Closed {
				out = append(out, Token{Kind: ending(c.Tok.Kind), Raw: map[Kind]string{RBrace: "}", RBracket: "]", RParen: ")"}[ending(c.Tok.Kind)]})
			}
		}
	}
	return out
}

// Problems scans a token list for things that must never appear in sanitised
// CSS: comments, bad strings/urls, unterminated tokens, unbalanced brackets.
func Problems(toks []Token) []string {
	var out []string
	var stack []Kind
	for _, t := range toks {
		switch t.Kind {
		case CommentTok:
			out = append(out, "comment")
		case BadString:
			out = append(out, "bad-string")
		case BadURL:
			out = append(out, "bad-url")
		case LBrace, LBracket, LParen, Function:
			stack = append(stack, ending(t.Kind))
		case RBrace, RBracket, RParen:
			if len(stack) == 0 || stack[len(stack)-1] != t.Kind {
				out = append(out, "unbalanced "+t.Kind.String())
			} else {
				stack = stack[:len(stack)-1]
			}
		}
		if t.Unterminated {
			out = append(out, "unterminated "+t.Kind.String())
		}
	}
	for range stack {
		out = append(out, "unclosed block")
	}
	return out
}
