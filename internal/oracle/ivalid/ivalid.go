// Package ivalid is oracle O6: a reference UTF-8 decoder (RFC 3629, one
// U+FFFD per undecodable byte) and the "interchange valid" predicate written
// from explicit numeric ranges, with no use of package unicode tables.
package ivalid

// Decode returns the code points of s; every byte that is not part of a
// well-formed UTF-8 sequence yields one U+FFFD.
func Decode(s string) []rune {
	out := make([]rune, 0, len(s))
	for i := 0; i < len(s); {
		r, n := decode1(s[i:])
		out = append(out, r)
		i += n
	}
	return out
}

func cont(b byte) bool { return b&0xC0 == 0x80 }

func decode1(s string) (rune, int) {
	b0 := s[0]
	switch {
	case b0 < 0x80:
		return rune(b0), 1
	case b0 >= 0xC2 && b0 <= 0xDF:
		if len(s) >= 2 && cont(s[1]) {
			return rune(b0&0x1F)<<6 | rune(s[1]&0x3F), 2
		}
	case b0 >= 0xE0 && b0 <= 0xEF:
		if len(s) >= 3 && cont(s[1]) && cont(s[2]) {
			r := rune(b0&0x0F)<<12 | rune(s[1]&0x3F)<<6 | rune(s[2]&0x3F)
			if r >= 0x800 && !(r >= 0xD800 && r <= 0xDFFF) {
				return r, 3
			}
		}
	case b0 >= 0xF0 && b0 <= 0xF4:
		if len(s) >= 4 && cont(s[1]) && cont(s[2]) && cont(s[3]) {
			r := rune(b0&0x07)<<18 | rune(s[1]&0x3F)<<12 | rune(s[2]&0x3F)<<6 | rune(s[3]&0x3F)
			if r >= 0x10000 && r <= 0x10FFFF {
				return r, 4
			}
		}
	}
	return 0xFFFD, 1
}

// Bad reports whether r is not interchange valid: NUL, C0 controls other than
// TAB LF FF CR, DEL, C1 controls, Unicode noncharacters.
func Bad(r rune) bool {
	switch {
	case r <= 0x08, r == 0x0B, r >= 0x0E && r <= 0x1F:
		return true
	case r >= 0x7F && r <= 0x9F:
		return true
	case r >= 0xFDD0 && r <= 0xFDEF:
		return true
	case r&0xFFFE == 0xFFFE && r <= 0x10FFFF:
		return true
	}
	return false
}

// Coerce is the reference coercion to interchange-valid text.
func Coerce(s string) []rune {
	rs := Decode(s)
	for i, r := range rs {
		if Bad(r) {
			rs[i] = 0xFFFD
		}
	}
	return rs
}

// Encode encodes code points (all assumed scalar values) as UTF-8.
func Encode(rs []rune) string {
	b := make([]byte, 0, len(rs))
	for _, r := range rs {
		switch {
		case r < 0x80:
			b = append(b, byte(r))
		case r < 0x800:
			b = append(b, 0xC0|byte(r>>6), 0x80|byte(r&0x3F))
		case r < 0x10000:
			b = append(b, 0xE0|byte(r>>12), 0x80|byte(r>>6&0x3F), 0x80|byte(r&0x3F))
		default:
			b = append(b, 0xF0|byte(r>>18), 0x80|byte(r>>12&0x3F), 0x80|byte(r>>6&0x3F), 0x80|byte(r&0x3F))
		}
	}
	return string(b)
}

// EncodeAny encodes any 21-bit value with the generic UTF-8 bit layout, also
// surrogates and values above U+10FFFF (used to generate ill-formed inputs).
func EncodeAny(r uint32) string {
	switch {
	case r < 0x80:
		return string([]byte{byte(r)})
	case r < 0x800:
		return string([]byte{0xC0 | byte(r>>6), 0x80 | byte(r&0x3F)})
	case r < 0x10000:
		return string([]byte{0xE0 | byte(r>>12), 0x80 | byte(r>>6&0x3F), 0x80 | byte(r&0x3F)})
	default:
		return string([]byte{0xF0 | byte(r>>18&0x07), 0x80 | byte(r>>12&0x3F), 0x80 | byte(r>>6&0x3F), 0x80 | byte(r&0x3F)})
	}
}
