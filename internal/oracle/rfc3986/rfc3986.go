// Package rfc3986 is oracle O5: URI component splitting (RFC 3986 appendix B),
// dot-segment removal as browsers do it (WHATWG: "." / ".." also when written
// %2e), and an independent percent-encoder down to unreserved characters.
package rfc3986

import "strings"

type Parts struct {
	Scheme, Authority, Path, Query, Fragment       string
	HasScheme, HasAuthority, HasQuery, HasFragment bool
}

// Split follows the regular expression of RFC 3986 appendix B.
func Split(s string) Parts {
	var p Parts
	if i := strings.IndexByte(s, '#'); i >= 0 {
		p.Fragment, p.HasFragment = s[i+1:], true
		s = s[:i]
	}
	if i := strings.IndexByte(s, '?'); i >= 0 {
		p.Query, p.HasQuery = s[i+1:], true
		s = s[:i]
	}
	if i := strings.IndexAny(s, ":/"); i > 0 && s[i] == ':' {
		p.Scheme, p.HasScheme = s[:i], true
		s = s[i+1:]
	}
	if strings.HasPrefix(s, "//") {
		s = s[2:]
		j := strings.IndexByte(s, '/')
		if j < 0 {
			j = len(s)
		}
		p.Authority, p.HasAuthority = s[:j], true
		s = s[j:]
	}
	p.Path = s
	return p
}

func isSingleDot(seg string) bool { return seg == "." || strings.EqualFold(seg, "%2e") }
func isDoubleDot(seg string) bool {
	switch strings.ToLower(seg) {
	case "..", ".%2e", "%2e.", "%2e%2e":
		return true
	}
	return false
}

// Resolve returns the list of path segments after dot-segment removal, and
// whether a ".." tried to climb above the root.
func Resolve(path string) (segs []string, climbed bool) {
	parts := strings.Split(path, "/")
	for i, seg := range parts {
		last := i == len(parts)-1
		switch {
		case isDoubleDot(seg):
			if len(segs) > 0 {
				segs = segs[:len(segs)-1]
			} else {
				climbed = true
			}
			if last {
				segs = append(segs, "")
			}
		case isSingleDot(seg):
			if last {
				segs = append(segs, "")
			}
		default:
			segs = append(segs, seg)
		}
	}
	return
}

// Encode percent-encodes every byte that is not unreserved (ALPHA DIGIT - . _ ~), lower-case hex.
func Encode(s string) string {
	const hex = "0123456789abcdef"
	var b strings.Builder
	for i := 0; i < len(s); i++ {
		c := s[i]
		if c|0x20 >= 'a' && c|0x20 <= 'z' || c >= '0' && c <= '9' || c == '-' || c == '.' || c == '_' || c == '~' {
			b.WriteByte(c)
		} else {
			b.WriteByte('%')
			b.WriteByte(hex[c>>4])
			b.WriteByte(hex[c&15])
		}
	}
	return b.String()
}

// LowerEscapes lower-cases the hex digits of %XX triplets (for case-insensitive comparison).
func LowerEscapes(s string) string {
	b := []byte(s)
	for i := 0; i+2 < len(b); i++ {
		if b[i] == '%' && isHex(b[i+1]) && isHex(b[i+2]) {
			b[i+1] = lower(b[i+1])
			b[i+2] = lower(b[i+2])
		}
	}
	return string(b)
}

func isHex(c byte) bool { return c >= '0' && c <= '9' || c|0x20 >= 'a' && c|0x20 <= 'f' }
func lower(c byte) byte {
	if c >= 'A' && c <= 'F' {
		return c + 0x20
	}
	return c
}
