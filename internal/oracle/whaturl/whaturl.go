// Package whaturl is oracle O2: the part of the WHATWG URL parser that decides
// whether an input has a scheme and which (input pre-processing, scheme start
// state, scheme state), written from https://url.spec.whatwg.org/#concept-basic-url-parser.
package whaturl

// Preprocess strips leading and trailing C0 control or space and removes all
// ASCII tab or newline (TAB, LF, CR) — steps 1-3 of the basic URL parser.
func Preprocess(s string) string {
	i, j := 0, len(s)
	for i < j && s[i] <= 0x20 {
		i++
	}
	for j > i && s[j-1] <= 0x20 {
		j--
	}
	b := make([]byte, 0, j-i)
	for k := i; k < j; k++ {
		c := s[k]
		if c == '\t' || c == '\n' || c == '\r' {
			continue
		}
		b = append(b, c)
	}
	return string(b)
}

// Scheme returns the lower-cased scheme a WHATWG parser finds in s (no base
// URL), and whether there is one.
func Scheme(s string) (string, bool) {
	s = Preprocess(s)
	if len(s) == 0 || !alpha(s[0]) {
		return "", false
	}
	buf := []byte{lower(s[0])}
	for i := 1; i < len(s); i++ {
		c := s[i]
		switch {
		case alpha(c) || c >= '0' && c <= '9' || c == '+' || c == '-' || c == '.':
			buf = append(buf, lower(c))
		case c == ':':
			return string(buf), true
		default:
			return "", false
		}
	}
	return "", false
}

func alpha(c byte) bool { return c|0x20 >= 'a' && c|0x20 <= 'z' }
func lower(c byte) byte {
	if c >= 'A' && c <= 'Z' {
		return c + 0x20
	}
	return c
}

// IsJavascript reports whether a browser would treat s as a javascript: URL.
func IsJavascript(s string) bool {
	sc, ok := Scheme(s)
	return ok && sc == "javascript"
}
