package whaturl

import (
	_ "embed"
	"encoding/json"
	"fmt"
	"strings"
	"unicode/utf8"
)

//go:embed testdata/urltestdata.json
var wpt []byte

// SelfTest checks Scheme against the WPT urltestdata.json corpus: for every
// non-failing case the scheme we extract from the input (or, when the input has
// none, the base's) must equal the expected protocol.
func SelfTest() (cases, passed int, failures []string) {
	var raw []json.RawMessage
	if err := json.Unmarshal(wpt, &raw); err != nil {
		return 0, 0, []string{err.Error()}
	}
	for _, r := range raw {
		var c struct {
			Input    *string `json:"input"`
			Base     *string `json:"base"`
			Failure  bool    `json:"failure"`
			Protocol string  `json:"protocol"`
		}
		if json.Unmarshal(r, &c) != nil || c.Input == nil {
			continue // comment strings
		}
		if c.Failure || !utf8.ValidString(*c.Input) {
			continue
		}
		cases++
		sc, ok := Scheme(*c.Input)
		if !ok && c.Base != nil {
			sc, ok = Scheme(*c.Base)
		}
		want := strings.TrimSuffix(c.Protocol, ":")
		if ok && sc == want {
			passed++
		} else {
			failures = append(failures, fmt.Sprintf("input %q base %v: got %q,%v want %q", *c.Input, c.Base, sc, ok, want))
		}
	}
	return
}
