// Package core holds what every check shares: the run record (evidence,
// violations, known findings), replay files and small parallel helpers.
package core

import (
	"crypto/sha1"
	"encoding/hex"
	"encoding/json"
	"fmt"
	"os"
	"path/filepath"
	"runtime"
	"sort"
	"strconv"
	"strings"
	"sync"
	"time"
)

// Root is the /verif directory (overridable for tests of the harness itself).
func Root() string {
	if r := os.Getenv("VERIF_ROOT"); r != "" {
		return r
	}
	return "/verif"
}

// Finding is one line of known_findings.json.
type Finding struct {
	Property string `json:"property"`
	Key      string `json:"key"`
	Status   string `json:"status"` // "known" | "fixed"
	Commit   string `json:"commit,omitempty"`
	What     string `json:"what"`
}

// Violation is one distinct (by Key) failure found by a check.
type Violation struct {
	Key    string      `json:"key"`    // canonical identity of the failing input/history/site
	Clause string      `json:"clause"` // which oracle clause failed
	What   string      `json:"what"`   // human explanation incl. observed vs expected
	Replay interface{} `json:"replay"` // everything `vcheck replay` needs
	Count  int         `json:"count"`  // how many explored cases mapped to this key
}

// Run collects the results of one check execution.
type Run struct {
	ID    string
	Tier  string
	Seed  int
	Level string // evidence level

	mu         sync.Mutex
	start      time.Time
	cov        map[string]interface{}
	samples    []interface{}
	assume     []string
	viol       map[string]*Violation
	wit        map[string]*witness
	exhaustive bool
	nonExh     []string
	harnessErr []string
}

// NewRun starts a run; tier comes from argv, seed from VERIF_SEED.
func NewRun(id, tier, level string) *Run {
	seed, _ := strconv.Atoi(os.Getenv("VERIF_SEED"))
	if tier != "thorough" {
		tier = "quick"
	}
	return &Run{ID: id, Tier: tier, Seed: seed, Level: level, start: time.Now(),
		cov: map[string]interface{}{}, viol: map[string]*Violation{}, exhaustive: true}
}

func (r *Run) Thorough() bool { return r.Tier == "thorough" }

// Set records a coverage key.
func (r *Run) Set(k string, v interface{}) {
	r.mu.Lock()
	r.cov[k] = v
	r.mu.Unlock()
}

// Add adds n to an integer coverage key.
func (r *Run) Add(k string, n int64) {
	r.mu.Lock()
	cur, _ := r.cov[k].(int64)
	r.cov[k] = cur + n
	r.mu.Unlock()
}

func (r *Run) Get(k string) int64 {
	r.mu.Lock()
	defer r.mu.Unlock()
	cur, _ := r.cov[k].(int64)
	return cur
}

// Sample keeps at most 12 written-out cases.
func (r *Run) Sample(s interface{}) {
	r.mu.Lock()
	if len(r.samples) < 12 {
		r.samples = append(r.samples, s)
	}
	r.mu.Unlock()
}

func (r *Run) Assume(s string) { r.mu.Lock(); r.assume = append(r.assume, s); r.mu.Unlock() }

// NotExhaustive records that some layer was capped (deadline, bound).
func (r *Run) NotExhaustive(why string) {
	r.mu.Lock()
	r.exhaustive = false
	r.nonExh = append(r.nonExh, why)
	r.mu.Unlock()
}

// HarnessError records a failure of the machinery itself (oracle self-test,
// vacuity floor, replay divergence). It makes the run exit 2, never 1.
func (r *Run) HarnessError(f string, a ...interface{}) {
	r.mu.Lock()
	r.harnessErr = append(r.harnessErr, fmt.Sprintf(f, a...))
	r.mu.Unlock()
}

// Violate records a violation; the first witness per key is kept (enumerators
// go simplest-first, so that is the smallest one of its shard).
func (r *Run) Violate(key, clause, what string, replay interface{}) {
	r.mu.Lock()
	defer r.mu.Unlock()
	if v, ok := r.viol[key]; ok {
		v.Count++
		return
	}
	r.viol[key] = &Violation{Key: key, Clause: clause, What: what, Replay: replay, Count: 1}
}

type witness struct {
	clause, discr, input, what string
	replay                     interface{}
	count                      int
}

// Witness records a failing input for (clause, discr) and keeps the smallest
// one (shortest, then bytewise least). Because the enumeration is exhaustive
// the survivor is deterministic whatever the worker interleaving; at Finish it
// becomes one Violation with key clause|discr|quoted-input.
func (r *Run) Witness(clause, discr, input, what string, replay interface{}) {
	k := clause + "|" + discr
	r.mu.Lock()
	defer r.mu.Unlock()
	if r.wit == nil {
		r.wit = map[string]*witness{}
	}
	w, ok := r.wit[k]
	if !ok {
		r.wit[k] = &witness{clause, discr, input, what, replay, 1}
		return
	}
	w.count++
	if len(input) < len(w.input) || len(input) == len(w.input) && input < w.input {
		w.input, w.what, w.replay = input, what, replay
	}
}

func (r *Run) foldWitnesses() {
	for k, w := range r.wit {
		key := k + "|" + Q(w.input)
		r.viol[key] = &Violation{Key: key, Clause: w.clause, What: w.what, Replay: w.replay, Count: w.count}
	}
	r.wit = nil
}

func (r *Run) NumViolations() int { r.mu.Lock(); defer r.mu.Unlock(); return len(r.viol) + len(r.wit) }

// LoadFindings reads known_findings.json (committed; never written here).
func LoadFindings() ([]Finding, error) {
	b, err := os.ReadFile(filepath.Join(Root(), "known_findings.json"))
	if err != nil {
		if os.IsNotExist(err) {
			return nil, nil
		}
		return nil, err
	}
	var fs []Finding
	if err := json.Unmarshal(b, &fs); err != nil {
		return nil, err
	}
	return fs, nil
}

// Deadline returns the internal soft deadline for this run: checks poll it and
// stop *exploring* (exit 0, exhaustive:false) — it is never an oracle.
func (r *Run) Deadline() time.Time {
	d := 480 * time.Second
	if r.Thorough() {
		d = 40 * time.Minute
	}
	if s := os.Getenv("VERIF_BUDGET_S"); s != "" {
		if n, err := strconv.Atoi(s); err == nil {
			d = time.Duration(n) * time.Second
		}
	}
	return r.start.Add(d)
}

func (r *Run) Expired() bool { return time.Now().After(r.Deadline()) }

// Finish writes evidence and replay files, prints result lines and exits.
func (r *Run) Finish() {
	r.foldWitnesses()
	fs, ferr := LoadFindings()
	if ferr != nil {
		r.harnessErr = append(r.harnessErr, "known_findings.json: "+ferr.Error())
	}
	known := map[string]Finding{}
	for _, f := range fs {
		if f.Property == r.ID && f.Status == "known" {
			known[f.Key] = f
		}
	}
	os.RemoveAll(filepath.Join(Root(), "replays", r.ID)) // replay files of earlier runs are stale
	keys := make([]string, 0, len(r.viol))
	for k := range r.viol {
		keys = append(keys, k)
	}
	sort.Strings(keys)
	nviol, nknown := 0, 0
	var lines []string
	var knownKeys, violKeys []string
	for _, k := range keys {
		v := r.viol[k]
		if f, ok := known[k]; ok {
			nknown++
			knownKeys = append(knownKeys, k)
			lines = append(lines, fmt.Sprintf("KNOWN-FINDING: property=%s key=%s %s", r.ID, k, oneLine(f.What)))
			continue
		}
		nviol++
		violKeys = append(violKeys, k)
		path := writeReplay(r.ID, v)
		lines = append(lines, fmt.Sprintf("VIOLATION property=%s replay=%s", r.ID, path))
		lines = append(lines, fmt.Sprintf("  key=%s clause=%s count=%d: %s", k, v.Clause, v.Count, oneLine(v.What)))
	}
	wall := time.Since(r.start).Seconds()
	cov := r.cov
	if len(r.samples) > 0 {
		cov["samples"] = r.samples
	}
	cov["exhaustive"] = r.exhaustive
	if len(r.nonExh) > 0 {
		cov["not_exhaustive_because"] = r.nonExh
	}
	if len(knownKeys) > 0 {
		cov["known_findings_reproduced"] = knownKeys
	}
	if len(violKeys) > 0 {
		cov["violation_keys"] = violKeys
	}
	if len(r.harnessErr) > 0 {
		cov["harness_errors"] = r.harnessErr
	}
	ev := map[string]interface{}{
		"property_id": r.ID, "tier": r.Tier, "seed": r.Seed, "level": r.Level,
		"coverage": cov, "wall_s": wall, "violations": nviol, "assumptions": r.assume,
	}
	if r.assume == nil {
		ev["assumptions"] = []string{}
	}
	b, _ := json.MarshalIndent(ev, "", " ")
	evdir := filepath.Join(Root(), "evidence")
	os.MkdirAll(evdir, 0o755)
	if err := os.WriteFile(filepath.Join(evdir, r.ID+".json"), append(b, '\n'), 0o644); err != nil {
		fmt.Println("HARNESS-ERROR: cannot write evidence:", err)
		os.Exit(2)
	}
	for _, l := range lines {
		fmt.Println(l)
	}
	fmt.Printf("%s %s: violations=%d known=%d wall=%.1fs exhaustive=%v\n", r.ID, r.Tier, nviol, nknown, wall, r.exhaustive)
	if len(r.harnessErr) > 0 {
		for _, h := range r.harnessErr {
			fmt.Println("HARNESS-ERROR:", h)
		}
		os.Exit(2)
	}
	if nviol > 0 {
		os.Exit(1)
	}
	os.Exit(0)
}

func oneLine(s string) string {
	s = strings.ReplaceAll(s, "\n", "\\n")
	if len(s) > 400 {
		s = s[:400] + "…"
	}
	return s
}

func writeReplay(id string, v *Violation) string {
	h := sha1.Sum([]byte(v.Key))
	dir := filepath.Join(Root(), "replays", id)
	os.MkdirAll(dir, 0o755)
	path := filepath.Join(dir, hex.EncodeToString(h[:6])+".json")
	b, _ := json.MarshalIndent(map[string]interface{}{
		"property": id, "key": v.Key, "clause": v.Clause, "what": v.What, "replay": v.Replay, "count": v.Count,
	}, "", " ")
	os.WriteFile(path, append(b, '\n'), 0o644)
	return path
}

// Workers is the number of parallel workers.
func Workers() int {
	if s := os.Getenv("VERIF_WORKERS"); s != "" {
		if n, err := strconv.Atoi(s); err == nil && n > 0 {
			return n
		}
	}
	return runtime.NumCPU()
}

// ParallelFor runs f(i) for i in [0,n) on Workers() goroutines.
func ParallelFor(n int, f func(i int)) {
	var wg sync.WaitGroup
	ch := make(chan int)
	w := Workers()
	if w > n {
		w = n
	}
	for k := 0; k < w; k++ {
		wg.Add(1)
		go func() {
			defer wg.Done()
			for i := range ch {
				f(i)
			}
		}()
	}
	for i := 0; i < n; i++ {
		ch <- i
	}
	close(ch)
	wg.Wait()
}

// Q quotes a byte string compactly for messages and keys.
func Q(s string) string { return strconv.QuoteToASCII(s) }

// Try runs f and reports a panic as (true, message) instead of crashing the check.
func Try(f func()) (panicked bool, msg string) {
	defer func() {
		if r := recover(); r != nil {
			panicked, msg = true, fmt.Sprint(r)
		}
	}()
	f()
	return false, ""
}
