// Package enum is the bounded-exhaustive input enumerator (engine E1): every
// sequence over a finite symbol alphabet up to a length bound, shortest and
// simplest first, sharded over workers by the leading symbols.
package enum

import (
	"sync/atomic"

	"verif/internal/core"
)

// Bytes256 is the full byte alphabet.
func Bytes256() []string {
	a := make([]string, 256)
	for i := range a {
		a[i] = string([]byte{byte(i)})
	}
	return a
}

// Stats reports what an enumeration visited: states = sequences (trie nodes),
// transitions = symbol appends (trie edges).
type Stats struct{ States, Transitions int64 }

// Seqs calls f for every sequence of symbols of length 0..maxLen (concatenated),
// in parallel. f must be safe for concurrent use. idx holds the symbol indices.
func Seqs(alpha []string, maxLen int, f func(s string, idx []int)) Stats {
	var st Stats
	f("", nil)
	atomic.AddInt64(&st.States, 1)
	if maxLen == 0 {
		return st
	}
	// shard on first two symbols when possible
	type shard struct{ a, b int }
	var shards []shard
	for a := range alpha {
		shards = append(shards, shard{a, -1})
	}
	if maxLen >= 2 {
		shards = shards[:0]
		for a := range alpha {
			for b := range alpha {
				shards = append(shards, shard{a, b})
			}
		}
		// length-1 strings
		for a := range alpha {
			f(alpha[a], []int{a})
		}
		atomic.AddInt64(&st.States, int64(len(alpha)))
		atomic.AddInt64(&st.Transitions, int64(len(alpha)))
	}
	core.ParallelFor(len(shards), func(i int) {
		sh := shards[i]
		var n, tr int64
		buf := make([]byte, 0, 64)
		idx := make([]int, 0, maxLen)
		buf = append(buf, alpha[sh.a]...)
		idx = append(idx, sh.a)
		depth := 1
		if sh.b >= 0 {
			buf = append(buf, alpha[sh.b]...)
			idx = append(idx, sh.b)
			depth = 2
		}
		var rec func(d int)
		rec = func(d int) {
			f(string(buf), idx)
			n++
			tr++
			if d == maxLen {
				return
			}
			for k, sym := range alpha {
				l := len(buf)
				buf = append(buf, sym...)
				idx = append(idx, k)
				rec(d + 1)
				buf = buf[:l]
				idx = idx[:len(idx)-1]
			}
		}
		rec(depth)
		atomic.AddInt64(&st.States, n)
		atomic.AddInt64(&st.Transitions, tr)
	})
	return st
}

// Tuples calls f for every tuple in dims[0] x dims[1] x ... (sequentially).
func Tuples(dims []int, f func(ix []int)) int64 {
	ix := make([]int, len(dims))
	var n int64
	for _, d := range dims {
		if d == 0 {
			return 0
		}
	}
	for {
		f(ix)
		n++
		k := len(ix) - 1
		for k >= 0 {
			ix[k]++
			if ix[k] < dims[k] {
				break
			}
			ix[k] = 0
			k--
		}
		if k < 0 {
			return n
		}
	}
}

// Long calls f for inputs built from a core string surrounded by padding of every length 0..maxPad: the
// enumeration over short strings cannot see behaviour that depends on length (buffers, truncation, windows)
// or on byte alignment after multi-byte characters, so these layers enumerate the length exhaustively instead.
// pads are the padding units (ASCII and multi-byte), cores the structural payloads.
func Long(pads, cores []string, maxPad int, f func(s string)) int64 {
	type job struct {
		pad  string
		core string
	}
	var jobs []job
	for _, p := range pads {
		for _, c := range cores {
			jobs = append(jobs, job{p, c})
		}
	}
	var n int64
	core.ParallelFor(len(jobs), func(i int) {
		j := jobs[i]
		var cnt int64
		pad := ""
		for k := 0; k <= maxPad; k++ {
			f(pad + j.core)
			f(j.core + pad)
			f(pad + j.core + pad)
			cnt += 3
			pad += j.pad
		}
		atomic.AddInt64(&n, cnt)
	})
	return n
}
