// Package hist is engine E3: stateless exploration of API call histories on
// real template sets, with a boring reference model of the set lifecycle and a
// differential "fresh set" oracle for every execution.
package hist

import (
	"bytes"
	"errors"
	"fmt"
	"strings"
	"sync"
	"time"

	"github.com/google/safehtml"
	"github.com/google/safehtml/template"
	tuc "github.com/google/safehtml/template/uncheckedconversions"
)

// Slots: handle table positions. Slot 0 is the root of set A.
const NumSlots = 6

type OpKind int

const (
	Exec OpKind = iota
	Lookup
	New
	Clone
	Parse
	ParseFiles
	ParseGlob
	ParseFS
	Templates
	Defined
	CSP // t.CSPCompatible(): a setting of the set, replayed like a definition call
)

var kindNames = [...]string{"exec", "lookup", "new", "clone", "parse", "parsefiles", "parseglob", "parsefs", "templates", "defined", "CSPCompatible"}

// Op is one API call of a history.
type Op struct {
	Kind OpKind
	H    int    // slot operated on
	Form int    // exec: 0 Execute 1 ExecuteToHTML 2 ExecuteTemplate 3 ExecuteTemplateToHTML
	Name string // template name (ExecuteTemplate*, Lookup, New)
	Arg  int    // data index (exec) / text index (parse)
	Dst  int    // slot that receives the resulting handle (lookup/new/clone)
}

func (o Op) String() string {
	switch o.Kind {
	case Exec:
		f := [...]string{"Execute", "ExecuteToHTML", "ExecuteTemplate", "ExecuteTemplateToHTML"}[o.Form]
		if o.Form >= 2 {
			return fmt.Sprintf("h%d.%s(%q, d%d)", o.H, f, o.Name, o.Arg)
		}
		return fmt.Sprintf("h%d.%s(d%d)", o.H, f, o.Arg)
	case Lookup:
		return fmt.Sprintf("h%d = h%d.Lookup(%q)", o.Dst, o.H, o.Name)
	case New:
		return fmt.Sprintf("h%d = h%d.New(%q)", o.Dst, o.H, o.Name)
	case Clone:
		return fmt.Sprintf("h%d = h%d.Clone()", o.Dst, o.H)
	case Parse:
		return fmt.Sprintf("h%d.Parse(text%d)", o.H, o.Arg)
	case ParseFS:
		if o.Arg == 1 {
			return fmt.Sprintf("h%d.ParseFS(TrustedFS{})", o.H)
		} else if o.Arg == 2 {
			return fmt.Sprintf("h%d.ParseFS(TrustedFS{}.Sub(x))", o.H)
		} else if o.Arg > 2 {
			return fmt.Sprintf("h%d.ParseFS(fs, %s)", o.H, [...]string{"", "", "", "", `"a.tmpl", "*.none"`, `"bad/root"`, `"["`}[o.Arg])
		}
	case ParseFiles:
		if o.Arg > 0 {
			return fmt.Sprintf("h%d.ParseFiles(%s)", o.H, [...]string{"", "", `"bad/root"`, `"a.tmpl", "none.tmpl"`}[o.Arg])
		}
	case ParseGlob:
		if o.Arg > 0 {
			return fmt.Sprintf("h%d.ParseGlob(%s)", o.H, [...]string{"", `"*.none"`, `"["`, `"bad/r*"`}[o.Arg])
		}
	}
	return fmt.Sprintf("h%d.%s()", o.H, kindNames[o.Kind])
}

// Scenario fixes the initial definitions, parse texts and data of a family of histories.
type Scenario struct {
	Name     string
	RootName string
	Bodyless []string      // names associated with the set by New, without a body, before Init is parsed
	Init     string        // text parsed into the root before the history starts
	Texts    []string      // texts for Parse ops
	Data     []interface{} // data values for Exec ops
}

// Obs is what one op returned.
type Obs struct {
	Out      string // bytes written / HTML returned
	Err      bool
	ErrMsg   string
	Analysis bool // the error is a contextual-analysis error (*template.Error or "incomplete" / undefined)
	Panic    string
	NilDst   bool // lookup returned nil
	Marks    int  // number of harness mark() calls during the op
	ZeroHTML bool // ToHTML forms: the returned HTML is the zero value
	Timeout  bool
}

type world struct {
	sc    *Scenario
	slots [NumSlots]*template.Template
	marks *int
}

func newWorld(sc *Scenario) (*world, error) {
	w := &world{sc: sc, marks: new(int)}
	m := w.marks
	var root *template.Template
	// partial / has / count call back into the set while one of its templates is executing
	root = template.New(sc.RootName).Funcs(template.FuncMap{
		"mark":    func(args ...interface{}) string { *m++; return "" },
		"partial": func(name string, d interface{}) (safehtml.HTML, error) { return root.ExecuteTemplateToHTML(name, d) },
		"has":     func(name string) bool { return root.Lookup(name) != nil },
		"count":   func() int { return len(root.Templates()) + len(root.DefinedTemplates()) },
	})
	for _, name := range sc.Bodyless {
		root.New(name)
	}
	if sc.Init != "" {
		if _, err := root.ParseFromTrustedTemplate(tuc.TrustedTemplateFromStringKnownToSatisfyTypeContract(sc.Init)); err != nil {
			return nil, err
		}
	}
	w.slots[0] = root
	return w, nil
}

const fixtureDir = "fixtures/hist"

// apply performs one op on the real objects.
func (w *world) apply(o Op) (obs Obs) {
	defer func() {
		if r := recover(); r != nil {
			obs.Panic = fmt.Sprint(r)
			if len(obs.Panic) > 160 {
				obs.Panic = obs.Panic[:160]
			}
		}
	}()
	t := w.slots[o.H]
	if t == nil {
		obs.Err, obs.ErrMsg = true, "nil handle"
		return
	}
	seterr := func(err error) {
		if err != nil {
			obs.Err, obs.ErrMsg = true, err.Error()
			var te *template.Error
			if errors.As(err, &te) || strings.Contains(err.Error(), "incomplete") || strings.Contains(err.Error(), "is undefined") {
				obs.Analysis = true
			}
		}
	}
	switch o.Kind {
	case Exec:
		before := *w.marks
		data := w.sc.Data[o.Arg]
		switch o.Form {
		case 0:
			var b bytes.Buffer
			seterr(t.Execute(&b, data))
			obs.Out = b.String()
		case 1:
			h, err := t.ExecuteToHTML(data)
			seterr(err)
			obs.Out, obs.ZeroHTML = h.String(), h == (safehtml.HTML{})
		case 2:
			var b bytes.Buffer
			seterr(t.ExecuteTemplate(&b, o.Name, data))
			obs.Out = b.String()
		case 3:
			h, err := t.ExecuteTemplateToHTML(o.Name, data)
			seterr(err)
			obs.Out, obs.ZeroHTML = h.String(), h == (safehtml.HTML{})
		}
		obs.Marks = *w.marks - before
	case Lookup:
		r := t.Lookup(o.Name)
		w.slots[o.Dst] = r
		obs.NilDst = r == nil
	case New:
		w.slots[o.Dst] = t.New(o.Name)
	case Clone:
		c, err := t.Clone()
		seterr(err)
		if err == nil {
			w.slots[o.Dst] = c
		}
	case Parse:
		_, err := t.ParseFromTrustedTemplate(tuc.TrustedTemplateFromStringKnownToSatisfyTypeContract(w.sc.Texts[o.Arg]))
		seterr(err)
	case ParseFiles:
		var err error
		switch o.Arg {
		case 1: // no file names at all
			_, err = t.ParseFiles()
		case 2: // a file with a syntax error whose base name is the name of the root template
			_, err = t.ParseFiles("fixtures/hist/bad/root")
		case 3: // a file that does not exist, after one that does
			_, err = t.ParseFiles("fixtures/hist/a.tmpl", "fixtures/hist/none.tmpl")
		default:
			_, err = t.ParseFiles("fixtures/hist/a.tmpl", "fixtures/hist/b.tmpl")
		}
		seterr(err)
	case ParseGlob:
		var err error
		switch o.Arg {
		case 1: // matches nothing
			_, err = t.ParseGlob("fixtures/hist/*.none")
		case 2: // malformed pattern
			_, err = t.ParseGlob("fixtures/hist/[")
		case 3: // matches the file with the syntax error
			_, err = t.ParseGlob("fixtures/hist/bad/r*")
		default:
			_, err = t.ParseGlob("fixtures/hist/*.tmpl")
		}
		seterr(err)
	case ParseFS:
		tfs := template.TrustedFSFromTrustedSource(template.TrustedSourceFromConstant("fixtures/hist"))
		switch o.Arg {
		case 1: // the zero value, which any client can write
			tfs = template.TrustedFS{}
		case 2:
			tfs, _ = template.TrustedFS{}.Sub(template.TrustedSourceFromConstant("x"))
		}
		var err error
		switch o.Arg {
		case 3: // no patterns at all
			_, err = t.ParseFS(tfs)
		case 4: // a pattern that matches nothing, after one that matches
			_, err = t.ParseFS(tfs, "a.tmpl", "*.none")
		case 5: // matches the file with the syntax error
			_, err = t.ParseFS(tfs, "bad/root")
		case 6: // malformed pattern
			_, err = t.ParseFS(tfs, "[")
		default:
			_, err = t.ParseFS(tfs, "*.tmpl")
		}
		seterr(err)
	case Templates:
		var names []string
		for _, x := range t.Templates() {
			names = append(names, x.Name())
		}
		obs.Out = fmt.Sprint(len(names))
	case Defined:
		obs.Out = t.DefinedTemplates()
	case CSP:
		t.CSPCompatible()
	}
	return
}

// applyGuarded runs apply under a generous watchdog (the calls take microseconds).
func (w *world) applyGuarded(o Op) Obs {
	done := make(chan Obs, 1)
	go func() { done <- w.apply(o) }()
	select {
	case r := <-done:
		return r
	case <-time.After(90 * time.Second):
		return Obs{Timeout: true}
	}
}

// Run replays a history on fresh objects and returns the observation of every op.
// guarded=true runs every call under the watchdog (needed when hangs are possible).
func Run(sc *Scenario, ops []Op, guarded bool) ([]Obs, error) {
	w, err := newWorld(sc)
	if err != nil {
		return nil, err
	}
	out := make([]Obs, len(ops))
	for i, o := range ops {
		if guarded {
			out[i] = w.applyGuarded(o)
			if out[i].Timeout {
				return out[:i+1], nil
			}
		} else {
			out[i] = w.apply(o)
		}
	}
	return out, nil
}

// ---- reference model ---------------------------------------------------------

// Model tracks, per handle slot, which set it belongs to and how it was obtained,
// and per set whether it was executed and which definition ops built it.
type Model struct {
	SlotSet  [NumSlots]int // -1 = empty
	SlotNil  [NumSlots]bool
	SlotPost [NumSlots]bool // handle created by New after the set was executed
	SlotName [NumSlots]string
	RootName string
	Sets     []SetModel
}

type SetModel struct {
	Executed bool
	// ExecNames: templates that were the target of an execution (successful or not).
	ExecNames map[string]bool
	// LateCSP: CSPCompatible was called after an execution. The setting is read when a template is analysed, so it
	// reaches only templates analysed later; PreCSP holds the names executed before the call, whose results must
	// stay what they were ("no later output of the set changes"). Other results of the set are not judged.
	LateCSP bool
	PreCSP  map[string]bool
	// Uncertain: an ExecuteTemplate of an undefined name happened before any real execution. The
	// statement does not say whether that freezes the set (the implementation does freeze it), so a
	// later New makes the set's definitions unknowable to the model: references are skipped.
	Uncertain, Unknown bool
	// Lineage: the ops (on reference slot numbering) that rebuild this set and its handles from scratch.
	Lineage []Op
}

func NewModel(rootName string) *Model {
	m := &Model{RootName: rootName}
	for i := range m.SlotSet {
		m.SlotSet[i] = -1
	}
	m.SlotSet[0] = 0
	m.Sets = []SetModel{{}}
	return m
}

func (m *Model) Copy() *Model {
	c := *m
	c.Sets = make([]SetModel, len(m.Sets))
	for i, s := range m.Sets {
		en := map[string]bool{}
		for k, v := range s.ExecNames {
			en[k] = v
		}
		pre := map[string]bool{}
		for k, v := range s.PreCSP {
			pre[k] = v
		}
		c.Sets[i] = SetModel{Executed: s.Executed, ExecNames: en, Uncertain: s.Uncertain, Unknown: s.Unknown, LateCSP: s.LateCSP, PreCSP: pre, Lineage: append([]Op{}, s.Lineage...)}
	}
	return &c
}

func (m *Model) name(h int) string {
	if h == 0 {
		return m.RootName
	}
	return m.SlotName[h]
}

// Expect describes what the model demands of an op's observation.
type Expect struct {
	MustErr    bool // Parse*/Clone after execution
	Reference  []Op // if non-nil: history whose last op must give the same (Out, Err) — the fresh-set oracle
	SkipRef    bool
	DefChanges bool
}

// Enabled reports whether the op can be generated in the current model state.
func (m *Model) Enabled(o Op) bool {
	if m.SlotSet[o.H] < 0 || m.SlotNil[o.H] {
		return false
	}
	switch o.Kind {
	case Lookup, New, Clone:
		if o.Dst == o.H || o.Dst == 0 {
			return false
		}
	}
	return true
}

// Step advances the model over op o (with its real observation, used only for
// facts the model does not predict: whether Lookup returned nil) and returns the expectation.
func (m *Model) Step(o Op, obs Obs) Expect {
	set := m.SlotSet[o.H]
	s := &m.Sets[set]
	var e Expect
	switch o.Kind {
	case Exec:
		target := o.Name
		if o.Form < 2 {
			target = m.name(o.H)
		}
		if m.SlotPost[o.H] || s.Unknown || s.LateCSP && !s.PreCSP[target] {
			e.SkipRef = true
		} else {
			e.Reference = append(append([]Op{}, s.Lineage...), o)
		}
		if obs.Err && strings.Contains(obs.ErrMsg, "is undefined") {
			if !s.Executed {
				s.Uncertain = true // ExecuteTemplate of an undefined name executes nothing
			}
		} else {
			s.Executed = true
			name := o.Name
			if o.Form < 2 {
				name = m.name(o.H)
			}
			if s.ExecNames == nil {
				s.ExecNames = map[string]bool{}
			}
			s.ExecNames[name] = true
		}
	case Lookup:
		m.SlotSet[o.Dst], m.SlotNil[o.Dst], m.SlotPost[o.Dst] = set, obs.NilDst, m.SlotPost[o.H]
		m.SlotName[o.Dst] = o.Name
		// a handle obtained by Lookup is part of the lineage (needed to replay calls through it)
		for i := range m.Sets {
			if i == set {
				m.Sets[i].Lineage = append(m.Sets[i].Lineage, o)
			}
		}
	case New:
		m.SlotSet[o.Dst], m.SlotNil[o.Dst] = set, false
		m.SlotName[o.Dst] = o.Name
		if s.Uncertain && !s.Executed {
			s.Unknown = true
		}
		if !s.Executed {
			// New replaces a registered template of that name: handles to the old one are detached from
			// the set (they become templates of a set of their own, which the model does not follow).
			for h := 1; h < NumSlots; h++ {
				if h != o.Dst && h != o.H && m.SlotSet[h] == set && m.SlotName[h] == o.Name {
					m.Sets = append(m.Sets, SetModel{Unknown: true})
					s = &m.Sets[set]
					m.SlotSet[h] = len(m.Sets) - 1
				}
			}
		}
		if s.Executed {
			m.SlotPost[o.Dst] = true // must not change any later output; not replayed in references
		} else {
			m.SlotPost[o.Dst] = m.SlotPost[o.H]
			s.Lineage = append(s.Lineage, o)
			e.DefChanges = true
		}
	case Clone:
		if s.ExecNames[m.name(o.H)] {
			e.MustErr = true // cloning a template that has already been executed
		} else if !obs.Err {
			ns := SetModel{Lineage: append(append([]Op{}, s.Lineage...), o), Unknown: s.Unknown || s.LateCSP}
			m.Sets = append(m.Sets, ns)
			m.SlotSet[o.Dst], m.SlotNil[o.Dst], m.SlotPost[o.Dst] = len(m.Sets)-1, false, false
			m.SlotName[o.Dst] = m.name(o.H)
		}
	case CSP:
		if s.Uncertain {
			s.Unknown = true
		} else if s.Executed {
			if !s.LateCSP {
				s.LateCSP = true
				s.PreCSP = map[string]bool{}
				for k, v := range s.ExecNames {
					s.PreCSP[k] = v
				}
			}
		} else {
			s.Lineage = append(s.Lineage, o)
			e.DefChanges = true
		}
	case Parse, ParseFiles, ParseGlob, ParseFS:
		if s.Executed {
			e.MustErr = true
		} else if !obs.Err {
			s.Lineage = append(s.Lineage, o)
			e.DefChanges = true
		}
	}
	return e
}

// ---- reference cache -----------------------------------------------------------

type refResult struct {
	Out string
	Err bool
	OK  bool
}

var refCache sync.Map

func opsKey(sc *Scenario, ops []Op) string {
	var b strings.Builder
	b.WriteString(sc.Name)
	for _, o := range ops {
		fmt.Fprintf(&b, "|%d,%d,%d,%s,%d,%d", o.Kind, o.H, o.Form, o.Name, o.Arg, o.Dst)
	}
	return b.String()
}

// Reference runs the reference history (definition ops + one exec) on fresh objects and returns the exec's result.
func Reference(sc *Scenario, ops []Op) (string, bool, bool) {
	k := opsKey(sc, ops)
	if v, ok := refCache.Load(k); ok {
		r := v.(refResult)
		return r.Out, r.Err, r.OK
	}
	obs, err := Run(sc, ops, false)
	r := refResult{}
	if err == nil && len(obs) == len(ops) {
		last := obs[len(obs)-1]
		r = refResult{Out: last.Out, Err: last.Err || last.Panic != "", OK: true}
	}
	refCache.Store(k, r)
	return r.Out, r.Err, r.OK
}
