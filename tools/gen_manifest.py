#!/usr/bin/env python3
"""Generates /verif/MANIFEST.json from the table below (single source of truth)."""
import json, os
ROOT = os.path.dirname(os.path.dirname(os.path.abspath(__file__)))
props = [json.loads(l) for l in open(os.path.join(ROOT, 'properties.jsonl'))]
ids = [p['id'] for p in props]

EXPL = "exploration"; MC = "model_checking"
checks = {
 # id: (category, technique, text, note, design_ref)
 "C10": (EXPL, "bounded-exhaustive input enumeration (all byte strings to length 2/3, every 21-bit code point value, class alphabet to length 3/5) against a reference coercion and an html5lib-validated WHATWG tokenizer",
   "Every byte string up to the bound, every code point in three contexts and every ill-formed UTF-8 class is run through the real HTMLEscaped and judged by an independent reference (UTF-8 decoder, interchange-valid ranges, tokenizer). Exhaustive within the stated bounds; the function is a per-code-point map, so the bounded space covers its behaviour classes.",
   "Trusted: oracle O6/O1 implementations, Go's html.UnescapeString for the round-trip clause; strings longer than the bounds are assumed to behave as compositions of the covered pieces.", "DESIGN.md §4 C10"),
}
not_yet = "check not built yet in this revision (planned: see DESIGN.md §4); not claimed"
m = {
 "version": 1,
 "setup_cmd": "./setup.sh",
 "hooks": {
   "guard": "verifsync-overlay",
   "enable": "no source hooks in /repo: the only instrumentation (C09) is injected at build time with `go build -overlay` (mutex shim for package template); all other checks use the exported API through a module replace => /repo",
   "baseline_off_cmd": "cd /repo && GOFLAGS=-mod=mod GOPROXY=off GOSUMDB=off GOTOOLCHAIN=local go test -vet=off -count=1 ./...",
   "source_commits": [],
   "add_only": True,
 },
 "engines": [
   {"name": "E1 input enumerator", "path": "internal/enum", "serves_properties": ["C10","C11","C12","C13","C15","C16","C17","C18","C20"], "kind_free_text": "odometer over finite alphabets to a length bound, sharded over 16 workers, real functions called on every element"},
 ],
 "checks": [],
 "not_applicable": [],
 "notes": "All checks rebuild cmd/vcheck against /repo's working tree (go.mod replace) on every invocation via run.sh. Exit 0 = held (KNOWN-FINDING lines allowed), 1 = VIOLATION, 2 = harness error.",
}
for i in ids:
    if i in checks:
        cat, tech, text, note, ref = checks[i]
        m["checks"].append({
          "property_id": i,
          "quick_cmd": "./run.sh %s quick" % i,
          "thorough_cmd": "./run.sh %s thorough" % i,
          "evidence_file": "/verif/evidence/%s.json" % i,
          "replay_cmd_template": "./bin/vcheck replay {path}",
          "engine": "cmd/vcheck",
          "level_claimed": {"category": cat, "text": text, "design_ref": ref},
          "level_note": note,
          "technique": tech,
        })
    else:
        m["not_applicable"].append({"property_id": i, "reason": not_yet})
json.dump(m, open(os.path.join(ROOT, 'MANIFEST.json'), 'w'), indent=1)
print("checks:", len(m["checks"]), "not_applicable:", len(m["not_applicable"]))
