#!/usr/bin/env python3
"""Generates /verif/MANIFEST.json from the table below (single source of truth)."""
import json, os
ROOT = os.path.dirname(os.path.dirname(os.path.abspath(__file__)))
props = [json.loads(l) for l in open(os.path.join(ROOT, 'properties.jsonl'))]
ids = [p['id'] for p in props]

EXPL = "exploration"; MC = "model_checking"
checks = {
 # id: (category, technique, text, note, design_ref)
 "C01": (MC, "explicit-state exploration of template programs (fragment-sequence DFS with sound pruning + grammar-shaped product families) executed on the real engine; structure decided by an html5lib-validated WHATWG tokenizer, differential against text/template's rendering and against inert data",
   "All template programs over six fragment alphabets up to depth 4-6 (quick) / 5-7 (thorough), every lexical variant of a one-attribute tag (3.4M programs thorough) and of raw-text end tags are parsed, analysed and executed by the real engine for every control-path assignment; for each accepted program 53 distinguishing payloads per action must leave the token structure and final tokenizer state unchanged, and the inert rendering must have the author's structure without comments.",
   "Trusted: oracle O1 (validated on 7028 html5lib tokenizer cases at setup; cross-checked against x/net/html on 1/8 of outputs, disagreements counted). Payload coverage is by distinguishing payloads; arbitrary bytes are covered compositionally via C10. Bounds as reported in evidence; pruning soundness is asserted at depth<=3.", "DESIGN.md §2 E2, §4 C01"),
 "C02": (MC, "exhaustive exploration of attribute-template programs (25 elements x 25 attributes x quoting x static prefixes x 14 compositions + link rel sets + helper/call-site programs) on the real engine with every split of 20 dangerous strings over the actions; tokenizer + WHATWG scheme / srcset oracles",
   "Every program of the structured space is parsed, analysed and executed by the real engine; every successful output is re-tokenized and each marker / URL attribute is judged (code contexts, origin-determining URL start, javascript scheme after character-reference decoding, srcset candidates). Dangerous strings are split at every position over 1-3 dynamic parts.",
   "Trusted: oracles O1/O2/O3. URL attributes judged are those the property names (href, src, action, formaction, srcset, xlink:href).", "DESIGN.md §4 C02"),
 "C10": (EXPL, "bounded-exhaustive input enumeration (all byte strings to length 2/3, every 21-bit code point value, class alphabet to length 3/5) against a reference coercion and an html5lib-validated WHATWG tokenizer",
   "Every byte string up to the bound, every code point in three contexts and every ill-formed UTF-8 class is run through the real HTMLEscaped and judged by an independent reference (UTF-8 decoder, interchange-valid ranges, tokenizer). Exhaustive within the stated bounds; the function is a per-code-point map, so the bounded space covers its behaviour classes.",
   "Trusted: oracle O6/O1 implementations, Go's html.UnescapeString for the round-trip clause; strings longer than the bounds are assumed to behave as compositions of the covered pieces.", "DESIGN.md §4 C10"),
 "C11": (EXPL, "bounded-exhaustive input enumeration (all 1024 case foldings of javascript: x every byte / code point insertion, reference spellings, class strings to length 5/6, all byte strings to length 2/3) against a WPT-validated WHATWG scheme extractor",
   "Every enumerated string goes through the real URLSanitized; an independent implementation of URL input pre-processing + scheme states (validated on WPT urltestdata.json) decides whether a browser would see javascript:, before and after character-reference decoding; a byte-level recogniser decides the 'must be returned unchanged' clause.",
   "Trusted: oracle O2 and O1's character-reference decoding; bounds as stated in evidence.", "DESIGN.md §4 C11"),
 "C12": (EXPL, "bounded-exhaustive input enumeration (27-symbol class alphabet to length 4/6, all byte strings to length 2/3 in candidate contexts) re-parsed by an independent WHATWG srcset parser",
   "Every enumerated string goes through the real URLSetSanitized; the result is re-parsed with the HTML Standard's srcset algorithm written from the spec; every candidate must be safe, descriptors numeric, items copied in order from the input, result idempotent.",
   "Trusted: oracle O3 (srcset parser) and O2; 'a number' read leniently as anything strconv.ParseFloat accepts.", "DESIGN.md §4 C12"),
 "C13": (EXPL, "bounded-exhaustive enumeration of format strings (21 prefixes x bodies of <=3/4 symbols), argument assignments (21 values incl. missing), appended strings (all byte strings <=2) and parameter maps (<=2 entries), judged by an RFC 3986 / WHATWG dot-segment reference model",
   "All format/argument/base/parameter combinations within the bounds are run through the real constructors (formats via the FromFlag twin, bound to FromConstant by generated constant call sites) and compared with an independent percent-encoder, component splitter and dot-segment resolver.",
   "Trusted: oracle O5. The sub-clause 'independent of map iteration order' cannot be enumerated (runtime-randomised); it is sampled 9x per map and flagged exhaustive:false.", "DESIGN.md §4 C13"),
 "C15": (EXPL, "bounded-exhaustive enumeration of StyleProperties assignments (every field, all byte strings to length 2/3, 27-symbol CSS metacharacter alphabet to length 3/5, all field pairs, lists of 1-3 elements) parsed by an independent CSS Syntax 3 tokenizer and declaration-list parser",
   "Every enumerated StyleProperties value goes through the real StyleFromProperties; the result is tokenized and parsed as a declaration list by an independent CSS Syntax Level 3 implementation; declaration set/order, value alphabet, token hygiene and url() safety are decided per case.",
   "Trusted: oracle O4 (written from the spec, self-tested on hand-derived cases; no conformance corpus is available offline).", "DESIGN.md §4 C15"),
 "C16": (EXPL, "bounded-exhaustive enumeration of selectors (31-symbol alphabet to length 4/5, all byte strings to length 2 in three frames, nested quote/bracket frames) x 4 styles, parsed by an independent CSS Syntax 3 stylesheet parser",
   "Every enumerated selector goes through the real CSSRule with four styles from the checked constructors; accepted results are parsed as a stylesheet by an independent CSS Syntax Level 3 implementation and must be exactly one closed qualified rule with the selector as prelude and the style as block.",
   "Trusted: oracle O4. Leading whitespace/'-->' of a selector are compared modulo top-level skipping (not among the listed tokens).", "DESIGN.md §4 C16"),
 "C17": (EXPL, "exhaustive enumeration of a JSON value grammar (strings to length 2/3 over 18 hostile symbols, composites, marshalers, raw messages, unencodable values) x generated constant name call sites (all strings <=3 over 8 symbols)",
   "Every datum of the grammar is passed to the real ScriptFromDataAndConstant through generated constant call sites; the frame, the JSON alphabet, validity and the decoded value are checked against independently written expected values.",
   "Trusted: encoding/json's decoder as the definition of 'JSON value'. Names/scripts are compile-time constants, so they are covered by 602 generated call sites.", "DESIGN.md §4 C17"),
 "C18": (EXPL, "bounded-exhaustive enumeration of dynamic values (all byte strings to length 2/3, every Unicode scalar in 4 positions, 14-symbol class alphabet to length 4/6 with and without trailing LF) x 22 constant prefixes and 828 constant arguments via generated call sites",
   "Every enumerated value goes through the real constructors (panics recovered); a byte-level recogniser decides the pattern and the prefix-hyphen-value composition.",
   "Constant parameters are only reachable through generated constant call sites (tools/gen_consts.py).", "DESIGN.md §4 C18"),
 "C20": (EXPL, "bounded-exhaustive enumeration of filenames (16-symbol alphabet incl. separators, dots, NUL, Unicode look-alikes to length 4/5; all byte strings to length 2 alone and around '..') x 12 constant dirs x 7 srcs",
   "Every enumerated filename goes through the real TrustedSourceFromConstantDir for every generated constant-dir call site and src; the result must be the cleaned constant directory or a direct child of it.",
   "Linux path semantics (separator '/', list separator ':').", "DESIGN.md §4 C20"),
}
not_yet = "check not built yet in this revision (planned: see DESIGN.md §4); not claimed"
m = {
 "version": 1,
 "setup_cmd": "./setup.sh",
 "hooks": {
   "guard": "verifsync-overlay",
   "enable": "no source hooks in /repo: the only instrumentation (C09) is injected at build time with `go build -overlay` (mutex shim for package template); all other checks use the exported API through a module replace => /repo",
   "baseline_off_cmd": "cd /repo && GOFLAGS=-mod=mod GOPROXY=off GOSUMDB=off GOTOOLCHAIN=local go test -vet=off -count=1 ./...",
   "source_commits": [],
   "add_only": True,
 },
 "engines": [
   {"name": "E2 template-program explorer", "path": "internal/tmplx", "serves_properties": ["C01","C02","C03","C04","C14"], "kind_free_text": "DFS over fragment sequences (auto-closed control blocks, helper templates) and cartesian product families; every program is parsed/analysed/executed by the real engine; pruning of infectious analysis errors with soundness assertion"},
   {"name": "E1 input enumerator", "path": "internal/enum", "serves_properties": ["C10","C11","C12","C13","C15","C16","C17","C18","C20"], "kind_free_text": "odometer over finite alphabets to a length bound, sharded over 16 workers, real functions called on every element"},
 ],
 "checks": [],
 "not_applicable": [],
 "notes": "All checks rebuild cmd/vcheck against /repo's working tree (go.mod replace) on every invocation via run.sh. Exit 0 = held (KNOWN-FINDING lines allowed), 1 = VIOLATION, 2 = harness error.",
}
for i in ids:
    if i in checks:
        cat, tech, text, note, ref = checks[i]
        m["checks"].append({
          "property_id": i,
          "quick_cmd": "./run.sh %s quick" % i,
          "thorough_cmd": "./run.sh %s thorough" % i,
          "evidence_file": "/verif/evidence/%s.json" % i,
          "replay_cmd_template": "./bin/vcheck replay {path}",
          "engine": "cmd/vcheck",
          "level_claimed": {"category": cat, "text": text, "design_ref": ref},
          "level_note": note,
          "technique": tech,
        })
    else:
        m["not_applicable"].append({"property_id": i, "reason": not_yet})
json.dump(m, open(os.path.join(ROOT, 'MANIFEST.json'), 'w'), indent=1)
print("checks:", len(m["checks"]), "not_applicable:", len(m["not_applicable"]))
