#!/usr/bin/env python3
"""make_seed_prompts.py <scratch-root> <round-name> <ID>...

Creates, for every property ID, a scratch git worktree of /repo under <scratch-root>/<ID>, an output directory
<scratch-root>/<ID>.out and a prompt <scratch-root>/<ID>.prompt for a fresh sub-agent that is to produce two
property-breaking changes. The prompt contains only the property statement, the worktree path and the one-line names
of mechanisms already stored under seeded/ (so that new ones differ); nothing else from /verif.
"""
import json, subprocess, glob, re, os, sys

root, rnd, ids = sys.argv[1], sys.argv[2], sys.argv[3:]
props = {json.loads(l)['id']: json.loads(l) for l in open('/verif/properties.jsonl')}
TEMPLATE_IDS = {'C01', 'C02', 'C03', 'C04', 'C05', 'C06', 'C07', 'C08', 'C09', 'C14'}
HINT_T = ("individual entries of the policy tables in template/sanitizers.go; each sanitize*/validate* function taken on its own; "
          "the attribute-value state machine in template/transition.go and the text rewriting in escapeText; the delimiters; how commit "
          "installs edits; how errors are wrapped and returned by Execute / ExecuteToHTML / ExecuteTemplate; Template methods that are "
          "rarely exercised together; ParseFiles / ParseGlob / ParseFS with several files; the derived-template naming (mangle) and the "
          "memoised output contexts; the raw-text elements")
HINT_S = ("every exported constructor and method of the type(s) the property is about, one by one (also the rarely used ones and the ones in "
          "sub-packages such as legacyconversions, uncheckedconversions, testconversions, raw, internal/safehtmlutil, internal/template/raw); "
          "byte-level helpers (escaping tables, regular expressions, ASCII/Unicode case handling, rune vs byte iteration, invalid UTF-8); "
          "boundary handling (empty input, one-character input, input that ends inside an escape); package-level variables and caches that "
          "carry state from one call to the next; argument order, variadic arguments, nil and zero values")
KNOWN = ("javascript: split across several actions of one URL attribute, srcset static prefix not validated, the script-data-double-escaped "
         "state, comment over-stripping, static text after an action in an enum attribute, static '.' before data '.' after a "
         "TrustedResourceURL prefix, user Funcs or templates named like internal ones, Clone dropping the CSP mode, Parse racing with a first "
         "Execute, conditional element name with a raw-text alternative, exported conversions between the safe types through plain Go "
         "conversion or generic type inference")
os.makedirs(root, exist_ok=True)
for pid in ids:
    used = []
    for d in sorted(glob.glob(f'/verif/seeded/{pid}-*')):
        try:
            first = open(d + '/notes.md').read().strip().split('\n')[0]
            first = re.sub(r'^#+\s*', '', first)
            first = re.sub(r'^C\d+ mutant \d+\s*[-—–:]\s*', '', first)
            used.append(first[:120])
        except Exception:
            pass
    wt = f"{root}/{pid}"
    subprocess.run(["git", "-C", "/repo", "worktree", "add", "--detach", wt, "HEAD"], capture_output=True)
    os.makedirs(wt + ".out", exist_ok=True)
    hint = HINT_T if pid in TEMPLATE_IDS else HINT_S
    p = f"""You are helping test a verification framework for the Go library google/safehtml (XSS-safe string wrapper types plus a contextual autosanitizing HTML template engine derived from html/template). Your job is to play a maintainer who makes a plausible change that silently BREAKS one stated semantic property while the code still compiles and the library's own test suite still passes.

The property ({pid}):
\"\"\"{props[pid].get('statement') or props[pid].get('text')}\"\"\"

Your scratch git worktree of the library is at {wt} (work ONLY there; never touch /repo or /verif and do not read anything under /verif). Write your results into {wt}.out/ . Do NOT use `git stash` (the stash is shared with other people); to save a change use `git diff > file.diff && git checkout -- .`. Do not commit.

Environment for every shell command (there is no network):  export GOFLAGS=-mod=mod GOPROXY=off GOSUMDB=off GOTOOLCHAIN=local
Existing tests:  cd {wt} && go test -vet=off -count=1 ./...

Produce TWO independent changes, mutant1.diff and mutant2.diff (each made against a clean checkout, `git apply --check`-able on a clean tree). Requirements for each:
  * realistic: looks like an optimisation, refactoring, clean-up, feature or bug fix a maintainer could plausibly commit (state the cover story); small (ideally < 40 changed lines); touches library code only (no test files);
  * it compiles and the ENTIRE existing test suite passes with it (run it);
  * it genuinely violates the property above for at least one concrete input / call sequence / schedule, which you demonstrate with a plain Go test file demoN_test.go whose first line is `// dir: <directory relative to the module root where the file goes>`: the test PASSES on the unchanged tree and FAILS with your change applied. For concurrency properties the demo may need `go test -race`; say so in the first lines;
  * notesN.md (10 lines max, first line `# <one-line name of the mechanism>`): what was changed, why it is wrong, which inputs trigger it, why the existing suite does not notice.
This is round {rnd}. Choose mechanisms that are DIFFERENT from each other and from everything tried before:
{chr(10).join('  - ' + u for u in used)}
Look for what is still untouched. Suggestions: {hint}.
While working, if you notice that the UNCHANGED library already violates the property for some input, write that down in {wt}.out/clean_tree_findings.md with the exact reproducer (say whether it is new or one of the known ones: {KNOWN}).
At the end leave the worktree clean (`git checkout -- . && git clean -fdq`) and reply with two lines per change: the mechanism and the triggering input."""
    open(f"{root}/{pid}.prompt", "w").write(p)
print("ok", len(ids))
