#!/usr/bin/env python3
"""usage: tools/add_fixed.py <ID> <commit> <replays-dir> <key-prefix> <what>
Records as fixed (suppresses nothing) every violation key under <replays-dir> (a scratch evidence root's replays/<ID>)
that starts with <key-prefix>; at most 3 keys per call (smallest first)."""
import json, sys, os, glob
pid, commit, rdir, prefix, what = sys.argv[1:6]
root = os.path.dirname(os.path.dirname(os.path.abspath(__file__)))
p = os.path.join(root, 'known_findings.json')
d = json.load(open(p))
have = {(e['property'], e['key']) for e in d}
keys = []
for f in glob.glob(os.path.join(rdir, '*.json')):
    k = json.load(open(f)).get('key', '')
    if k.startswith(prefix):
        keys.append(k)
keys.sort(key=lambda k: (len(k), k))
n = 0
for k in keys[:3]:
    if (pid, k) in have:
        continue
    d.append({'property': pid, 'key': k, 'status': 'fixed', 'commit': commit, 'what': 'fixed: property=%s %s %s' % (pid, commit, what)})
    n += 1
json.dump(d, open(p, 'w'), indent=1, ensure_ascii=False)
open(p, 'a').write('\n')
print('added', n, 'of', len(keys), 'matching keys')
