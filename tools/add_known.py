#!/usr/bin/env python3
"""usage: add_known.py <ID> <whats.json>
Adds every violation currently in replays/<ID>/ as a known finding, with the explanation looked up
by 'clause|discr' in whats.json. Run by hand after a violation has been classified as a genuine
defect that is recorded rather than repaired; never run by a check."""
import json, glob, sys
ID, wf = sys.argv[1], sys.argv[2]
whats = json.load(open(wf))
kf = json.load(open('/verif/known_findings.json'))
have = {(f['property'], f['key']) for f in kf}
for f in sorted(glob.glob('/verif/replays/%s/*.json' % ID)):
    j = json.load(open(f))
    k = j['key']; base = '|'.join(k.split('|')[:2])
    if (ID, k) in have: continue
    what = whats.get(base)
    if what is None:
        for pat, w in whats.items():
            if pat.endswith('*') and base.startswith(pat[:-1]):
                what = w
    if what is None:
        print('UNCLASSIFIED', k[:160]); continue
    kf.append({'property': ID, 'key': k, 'status': 'known', 'what': what})
    print('added', k[:100])
json.dump(kf, open('/verif/known_findings.json', 'w'), indent=1, ensure_ascii=False)
