#!/bin/sh
# usage: tools/recheck_seeded.sh [dir ...]   (default: every seeded/<ID>-<k>)
# Re-runs the detecting check of each stored change against the current /repo HEAD + the change.
# Prints one line per change: DETECTED / MISSED / NOAPPLY.
V=$(cd "$(dirname "$0")/.." && pwd)
cd "$V"
[ $# -gt 0 ] || set -- seeded/C*-*
for d in "$@"; do
  [ -f "$d/meta.json" ] || continue
  check=$(python3 -c "import json,re,sys; m=json.load(open('$d/meta.json')); r=re.search(r'try.sh (C\d+)', m['verified'].get('check_run','')); print(r.group(1) if r else m['breaks_property'])")
  if ! (cd /repo && git apply --check "$V/$d/patch.diff" 2>/dev/null); then echo "NOAPPLY  $d ($check)"; continue; fi
  out=$(TRY_LINES=400 VERIF_BUDGET_S=${VERIF_BUDGET_S:-900} VERIF_WORKERS=${VERIF_WORKERS:-8} mutants/try.sh "$check" "$d/patch.diff" 2>&1 | tail -1)
  case "$out" in *exit=1) echo "DETECTED $d ($check)";; *) echo "MISSED   $d ($check) $out";; esac
done
