#!/bin/sh
# usage: tools/verify_seeded.sh <ID> <k> <patch.diff> <demo_test.go> <notes.md> [check-id]
# Confirms in a scratch copy of /repo (HEAD): the patch applies, the full suite passes with it, the demo fails with it
# and passes without it, and the named check reports a violation. Then stores it under /verif/seeded/<ID>-<k>/.
# Precondition: the named check is silent on the unchanged tree (its VIOLATION lines are counted as detections);
# tools/recheck_seeded.sh re-runs every stored change later and exposes a detection that was not one.
set -u
ID=$1; K=$2; PATCH=$(readlink -f "$3"); DEMO=$(readlink -f "$4"); NOTES=$(readlink -f "$5"); CHECK=${6:-$ID}
V=/verif
export GOFLAGS=-mod=mod GOPROXY=off GOSUMDB=off GOTOOLCHAIN=local
S=$(mktemp -d /tmp/seedver.XXXXXX); trap 'rm -rf "$S"' EXIT INT TERM
mkdir "$S/repo"; (cd /repo && git archive HEAD) | tar -x -C "$S/repo"
place=$(grep -m1 -oE '(place in|dir): *[^ ]*' "$DEMO" | sed -E 's/(place in|dir): *//'); [ -z "$place" ] && place="."
case "$place" in "repository"|"repo"|"root"|"the") place=".";; esac
dst="$S/repo/$place/zz_seed_demo_test.go"
cp "$DEMO" "$dst"
tname=$(grep -o 'func Test[A-Za-z0-9_]*' "$DEMO" | head -1 | sed 's/func //')
RACE=""; head -15 "$DEMO" | grep -q -- '-race' && RACE="-race"
clean=$(cd "$S/repo/$place" && go test $RACE -vet=off -count=1 -run "^$tname\$" . 2>&1 | tail -1)
if ! (cd "$S/repo" && patch -s -p1 < "$PATCH"); then echo "SEED $ID-$K: patch does not apply"; exit 3; fi
mut=$(cd "$S/repo/$place" && go test $RACE -vet=off -count=1 -run "^$tname\$" . 2>&1 | tail -1)
rm -f "$dst"
suite=$(cd "$S/repo" && go test -vet=off -count=1 ./... 2>&1 | grep -c '^FAIL')
out=$(TRY_LINES=400 VERIF_BUDGET_S=${VERIF_BUDGET_S:-900} "$V/mutants/try.sh" "$CHECK" "$PATCH" 2>&1 | grep -E '^(VIOLATION|  key=|TRY)' | grep -A1 -E '^(VIOLATION|TRY)' | grep -v '^--' | cut -c1-400)
det=$(echo "$out" | grep -c '^VIOLATION')
out=$(echo "$out" | head -3)
echo "SEED $ID-$K: demo-clean=[$clean] demo-mutant=[$mut] suite-fail-pkgs=$suite detected-by-$CHECK=$det"
case "$clean" in ok*) ;; *) echo "  demo does not pass on the clean tree"; exit 4;; esac
case "$mut" in FAIL*|*FAIL*) ;; *) echo "  demo does not fail with the patch"; exit 5;; esac
[ "$suite" = 0 ] || { echo "  suite fails with patch"; exit 6; }
D="$V/seeded/$ID-$K"; mkdir -p "$D"
cp "$PATCH" "$D/patch.diff"; cp "$DEMO" "$D/demo_test.go"; cp "$NOTES" "$D/notes.md" 2>/dev/null
key=$(echo "$out" | grep -m1 '  key=' | sed 's/^  key=//' | cut -c1-300)
SEEDKEY="$key" python3 - "$D" "$ID" "$CHECK" "$det" "$place" "$tname" <<PY
import json,sys
d,pid,check,det,place,tname=sys.argv[1:7]
notes=open(d+'/notes.md').read() if __import__('os').path.exists(d+'/notes.md') else ''
json.dump({"breaks_property":pid,"needs_to_manifest":notes.strip()[:1500],
 "verified":{"base":"HEAD of /repo at verification time (includes the fix: commits)","patch_applies":True,"existing_suite_passes_with_patch":True,
   "demo":"go test -run ^%s$ in %s: passes on the clean tree, fails with the patch"%(tname,place),
   "check_run":"mutants/try.sh %s patch.diff (quick tier)"%check,"detected":int(det)>0},
 "first_violation_key":__import__("os").environ.get("SEEDKEY","")}, open(d+'/meta.json','w'), indent=1)
PY
