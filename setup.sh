#!/bin/sh
# Run once after a fresh restore, offline: builds the checker (warming the Go build
# cache, also for the -race variant used by C09) and self-tests the oracles.
set -u
cd "$(dirname "$0")" || exit 2
export GOFLAGS=-mod=mod GOPROXY=off GOSUMDB=off GOTOOLCHAIN=local
mkdir -p bin evidence replays .build
go build -o bin/vcheck ./cmd/vcheck || exit 2
./bin/vcheck selftest || exit 2
if [ -x ./sched/build.sh ]; then ./sched/build.sh warm || exit 2; fi
echo "setup ok"
