#!/bin/sh
# usage: run.sh <ID> <quick|thorough>     (cwd anywhere)
# Rebuilds the checker from /repo's current working tree (module replace) and runs one check.
# VERIF_REPO=<dir> points the build at another copy of the library (used for mutants).
set -u
cd "$(dirname "$0")" || exit 2
export GOFLAGS=-mod=mod GOPROXY=off GOSUMDB=off GOTOOLCHAIN=local CGO_ENABLED=${CGO_ENABLED:-1}
ID=${1:?id}; TIER=${2:-${VERIF_TIER:-quick}}
mkdir -p bin evidence replays .build
BIN=bin/vcheck.$$
trap 'rm -f "$BIN"' EXIT INT TERM
MODFLAG=""
if [ -n "${VERIF_REPO:-}" ] && [ "${VERIF_REPO}" != "/repo" ]; then
  sed "s#=> /repo#=> ${VERIF_REPO}#" go.mod > .build/alt.$$.mod; cp go.sum .build/alt.$$.sum
  MODFLAG="-modfile=.build/alt.$$.mod"
  trap 'rm -f "$BIN" .build/alt.$$.mod .build/alt.$$.sum' EXIT INT TERM
fi
if ! go build $MODFLAG -o "$BIN" ./cmd/vcheck 2>.build/build.$$.log; then
  cat .build/build.$$.log; rm -f .build/build.$$.log
  echo "HARNESS-ERROR: build failed (library does not compile against the checker?)"; exit 2
fi
rm -f .build/build.$$.log
VERIF_MODFLAG="$MODFLAG" "./$BIN" "$ID" "$TIER"
