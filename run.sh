#!/bin/sh
# usage: run.sh <ID> <quick|thorough>     (cwd anywhere)
# Rebuilds the checker from /repo's current working tree (module replace) and runs one check.
# VERIF_REPO=<dir> points the build at another copy of the library (used for mutants).
set -u
cd "$(dirname "$0")" || exit 2
export GOFLAGS=-mod=mod GOPROXY=off GOSUMDB=off GOTOOLCHAIN=local CGO_ENABLED=${CGO_ENABLED:-1}
ID=${1:?id}; TIER=${2:-${VERIF_TIER:-quick}}
mkdir -p bin evidence replays .build
BIN=bin/vcheck.$$
trap 'rm -f "$BIN"' EXIT INT TERM
MODFLAG=""
if [ -n "${VERIF_REPO:-}" ] && [ "${VERIF_REPO}" != "/repo" ]; then
  sed "s#=> /repo#=> ${VERIF_REPO}#" go.mod > .build/alt.$$.mod; cp go.sum .build/alt.$$.sum
  MODFLAG="-modfile=.build/alt.$$.mod"
  trap 'rm -f "$BIN" .build/alt.$$.mod .build/alt.$$.sum' EXIT INT TERM
fi
if ! go build $MODFLAG -o "$BIN" ./cmd/vcheck 2>.build/build.$$.log; then
  cat .build/build.$$.log; rm -f .build/build.$$.log
  echo "HARNESS-ERROR: build failed (library does not compile against the checker?)"; exit 2
fi
rm -f .build/build.$$.log
if [ "$ID" = C09 ]; then
  # the scheduler binaries are built with the mutex-shim overlay from the same working tree
  SD=.build/sched.$$
  trap 'rm -rf "$BIN" "$SD" .build/alt.$$.mod .build/alt.$$.sum' EXIT INT TERM
  if ! sched/build.sh "$SD" "${VERIF_REPO:-/repo}" > .build/sched.$$.log 2>&1; then
    cat .build/sched.$$.log; rm -f .build/sched.$$.log
    echo "HARNESS-ERROR: overlay build of the scheduler failed"; exit 2
  fi
  rm -f .build/sched.$$.log
  export VSCHED_DIR="$PWD/$SD"
fi
VERIF_MODFLAG="$MODFLAG" "./$BIN" "$ID" "$TIER"
