// Package policy holds oracle O7: the universes of element and attribute names
// and the reviewed sanitization policy table that C03/C04 compare the engine with.
package policy

import (
	_ "embed"
	"encoding/json"
	"strings"
)

//go:embed elements.txt
var elementsTxt string

//go:embed attributes.txt
var attributesTxt string

//go:embed reviewed_policy.json
var reviewedJSON []byte

func words(s string) []string {
	var out []string
	seen := map[string]bool{}
	for _, line := range strings.Split(s, "\n") {
		if strings.HasPrefix(line, "#") {
			continue
		}
		for _, w := range strings.Fields(line) {
			if !seen[w] {
				seen[w] = true
				out = append(out, w)
			}
		}
	}
	return out
}

// Elements is the element-name universe (HTML living + obsolete + SVG + MathML + custom/malformed).
func Elements() []string { return words(elementsTxt) }

// Attributes is the attribute-name universe.
func Attributes() []string { return words(attributesTxt) }

// Reviewed is the reviewed policy: the weakest trust class the engine may demand.
type Reviewed struct {
	// ElementContent: element -> class (HTML, RCDATA, Script, StyleSheet); absent = reject.
	ElementContent map[string]string `json:"element_content"`
	// Attr: "element attr" or "* attr" -> class; absent = reject. The element-specific entry wins.
	Attr map[string]string `json:"attr"`
	// LinkRelURL: rel values that make link href a URL context instead of TrustedResourceURL.
	LinkRelURL []string `json:"link_rel_url"`
	// Enums: class -> allowed words.
	Enums map[string][]string `json:"enums"`
}

func Load() (Reviewed, error) {
	var r Reviewed
	err := json.Unmarshal(reviewedJSON, &r)
	return r, err
}

// AttrClass looks up the reviewed class of (element, attr); "" = must be rejected.
func (r Reviewed) AttrClass(element, attr string) string {
	if c, ok := r.Attr[element+" "+attr]; ok {
		return c
	}
	if c, ok := r.Attr["* "+attr]; ok {
		// global attributes are allowed only on elements the policy knows (content or void list)
		if _, ok := r.ElementContent[element]; ok {
			return c
		}
		if _, ok := r.Attr["void "+element]; ok {
			return c
		}
	}
	return ""
}

// Table is the compact form the reviewed policy is stored in.
type Table struct {
	// AllowedElements: elements on which global attributes are accepted.
	AllowedElements []string `json:"allowed_elements"`
	// Global: attribute -> class on every allowed element.
	Global map[string]string `json:"global"`
	// Specific: "element attr" -> class (deviations from Global, incl. "reject").
	Specific map[string]string `json:"specific"`
	// Content: element -> class of actions in element content.
	Content map[string]string `json:"content"`
	// LinkRelURL: rel values that turn link href into a URL context.
	LinkRelURL []string `json:"link_rel_url"`
	// DataAttrPattern documents which data-* names are accepted (class Escaped on every element).
	DataAttrPattern string `json:"data_attr_pattern"`
}

//go:embed reviewed_table.json
var tableJSON []byte

func LoadTable() (Table, error) {
	var t Table
	err := json.Unmarshal(tableJSON, &t)
	return t, err
}

// Class returns the reviewed class of (element, attr) ("" attr = content); "reject" if not listed.
func (t Table) Class(element, attr string) string {
	if attr == "" {
		if c, ok := t.Content[element]; ok {
			return c
		}
		return "reject"
	}
	if c, ok := t.Specific[element+" "+attr]; ok {
		return c
	}
	if dataAttr(attr) {
		return "Escaped"
	}
	if c, ok := t.Global[attr]; ok {
		for _, e := range t.AllowedElements {
			if e == element {
				return c
			}
		}
	}
	return "reject"
}

// dataAttr is the reviewed rule for data-* attributes: ^data-[a-z_][-a-z0-9_]*$
func dataAttr(a string) bool {
	if !strings.HasPrefix(a, "data-") || len(a) < 6 {
		return false
	}
	c := a[5]
	if !(c >= 'a' && c <= 'z' || c == '_') {
		return false
	}
	for i := 6; i < len(a); i++ {
		c := a[i]
		if !(c >= 'a' && c <= 'z' || c >= '0' && c <= '9' || c == '_' || c == '-') {
			return false
		}
	}
	return true
}

// Review checks the table against rules taken from the HTML standard, independent of the engine.
// It returns the list of rule violations (empty = the table is acceptable as the reviewed policy).
func (t Table) Review() []string {
	var bad []string
	codeURL := map[string]bool{"script src": true, "iframe src": true, "frame src": true, "embed src": true, "object data": true, "base href": true, "link href": true}
	idAttrs := map[string]bool{"id": true, "name": true, "for": true, "list": true, "aria-activedescendant": true, "aria-controls": true, "aria-describedby": true, "aria-labelledby": true, "aria-owns": true}
	check := func(el, attr, class string) {
		key := el + " " + attr
		switch {
		case class == "reject":
			return
		case strings.HasPrefix(attr, "on"):
			bad = append(bad, key+": event handler attributes must be rejected, table says "+class)
		case attr == "style" && class != "Typed{Style}":
			bad = append(bad, key+": style must be Style-only, table says "+class)
		case attr == "srcdoc" && class != "Typed{HTML}":
			bad = append(bad, key+": srcdoc must be HTML-only, table says "+class)
		case codeURL[key] && class != "Typed{TrustedResourceURL}":
			bad = append(bad, key+": code-loading URL must be TrustedResourceURL-only, table says "+class)
		case (attr == "href" || attr == "src" || attr == "action" || attr == "formaction") && class != "Typed{TrustedResourceURL}" && class != "URL" && class != "TRURLOrURL":
			bad = append(bad, key+": URL attribute must be sanitized or typed, table says "+class)
		case (attr == "srcset" || attr == "imagesrcset") && class != "URLSet":
			bad = append(bad, key+": srcset must be URLSet, table says "+class)
		case idAttrs[attr] && class != "Typed{Identifier}":
			bad = append(bad, key+": ID/name attribute must be Identifier-only, table says "+class)
		}
	}
	for attr, class := range t.Global {
		check("*", attr, class)
		for _, el := range t.AllowedElements {
			if _, ok := t.Specific[el+" "+attr]; !ok {
				if codeURL[el+" "+attr] && class != "Typed{TrustedResourceURL}" {
					bad = append(bad, el+" "+attr+": code-loading URL inherits "+class+" from the global table")
				}
			}
		}
	}
	for key, class := range t.Specific {
		f := strings.SplitN(key, " ", 2)
		check(f[0], f[1], class)
	}
	for el, class := range t.Content {
		switch el {
		case "script":
			if class != "Typed{Script}" {
				bad = append(bad, "script content must be Script-only, table says "+class)
			}
		case "style":
			if class != "Typed{StyleSheet}" {
				bad = append(bad, "style content must be StyleSheet-only, table says "+class)
			}
		case "textarea", "title":
			if class != "Escaped" {
				bad = append(bad, el+" content must be RCDATA (escaped), table says "+class)
			}
		case "xmp", "plaintext", "noembed", "noframes", "template", "svg", "math", "object", "applet":
			bad = append(bad, el+" content must be rejected, table says "+class)
		default:
			if class != "HTML" {
				bad = append(bad, el+" content must be HTML, table says "+class)
			}
		}
	}
	for _, rel := range t.LinkRelURL {
		switch rel {
		case "stylesheet", "import", "manifest", "modulepreload", "serviceworker":
			bad = append(bad, "link rel "+rel+" loads code or styles and must not relax href")
		}
	}
	return bad
}
