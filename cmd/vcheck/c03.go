package main

import (
	"encoding/json"
	"fmt"
	"reflect"
	"strings"
	"sync"
	"sync/atomic"

	"verif/internal/core"
	"verif/internal/oracle/htmltok"
	"verif/internal/tmplx"
	"verif/policy"
)

func init() {
	register("C03", "model_checking", checkC03)
	replayers["C03"] = func(raw json.RawMessage) (bool, string) {
		var in c03Replay
		json.Unmarshal(raw, &in)
		return c03ReplayCase(in)
	}
}

type c03Replay struct {
	Program  string
	Element  string
	Attr     string
	Type     string
	Ptr      int
	Contents string
	Clause   string
}

// URL-valued attributes of HTML/SVG (name based, from the HTML standard; independent of the engine's tables).
var c03URLAttrs = map[string]bool{"href": true, "src": true, "action": true, "formaction": true, "cite": true, "poster": true, "data": true,
	"background": true, "ping": true, "manifest": true, "longdesc": true, "usemap": true, "codebase": true, "icon": true, "profile": true,
	"classid": true, "archive": true, "xlink:href": true, "dynsrc": true, "lowsrc": true, "srcset": true, "imagesrcset": true, "itemid": true, "itemtype": true}

// ID / name reference attributes.
var c03IDAttrs = map[string]bool{"id": true, "name": true, "for": true, "list": true, "form": true, "headers": true, "usemap": true, "itemref": true,
	"popovertarget": true, "aria-activedescendant": true, "aria-controls": true, "aria-describedby": true, "aria-details": true,
	"aria-errormessage": true, "aria-flowto": true, "aria-labelledby": true, "aria-owns": true, "slot": true, "is": true}

// Elements whose content is not parsed as markup. iframe and noscript are deliberately absent: the engine's
// policy treats their (fallback) content as ordinary HTML, which is the stricter reading for untrusted data
// and the contract-covered one for safehtml.HTML.
var c03RawContent = map[string]bool{"script": true, "style": true, "textarea": true, "title": true, "xmp": true, "noembed": true,
	"noframes": true, "plaintext": true}

// c03Own: is (element, attr) a context the type's contract covers? attr=="" means element content.
func c03Own(typ, elementWithAttrs, attr string) bool {
	element := strings.ToLower(strings.Fields(elementWithAttrs)[0])
	attr = strings.ToLower(attr)
	rel := ""
	if i := strings.Index(elementWithAttrs, "rel=\""); i >= 0 {
		rel = strings.ToLower(strings.TrimSuffix(elementWithAttrs[i+5:], "\""))
	}
	if attr == "" {
		switch typ {
		case "HTML":
			return !c03RawContent[element]
		case "Script":
			return element == "script"
		case "StyleSheet":
			return element == "style"
		}
		return false
	}
	switch typ {
	case "HTML":
		return attr == "srcdoc"
	case "Script":
		return strings.HasPrefix(attr, "on")
	case "Style":
		return attr == "style"
	case "URL":
		if element == "link" && attr == "href" {
			// a link's href is an ordinary URL only if every rel value is one the reviewed policy lists
			toks := strings.Fields(rel)
			if len(toks) == 0 {
				return false
			}
			for _, t := range toks {
				if !c03RelURL[t] {
					return false
				}
			}
			return true
		}
		if c02CodeLoading(element, attr) {
			return false
		}
		if pc := c03PolicyClass(element, attr); pc == "URLSet" {
			// srcset-like attributes hold a set of URLs: a safehtml.URL is vetted candidate by candidate like a string
			return false
		}
		return c03URLAttrs[attr]
	case "TrustedResourceURL":
		if pc := c03PolicyClass(element, attr); pc == "URLSet" {
			return false
		}
		if c03PolicyClass(element, attr) == "URL" {
			// the reviewed policy gives these attributes (form action, formaction, ...) to safehtml.URL alone: any
			// other value, a TrustedResourceURL included, goes through the URL sanitizer like an untrusted string
			return false
		}
		return c03URLAttrs[attr]
	case "Identifier":
		return c03IDAttrs[attr]
	}
	return false
}

var c03Table, _ = policy.LoadTable()

func c03PolicyClass(element, attr string) string {
	return c03Table.Class(element, attr)
}

var c03RelURL = func() map[string]bool {
	m := map[string]bool{}
	if t, err := policy.LoadTable(); err == nil {
		for _, r := range t.LinkRelURL {
			m[r] = true
		}
	}
	return m
}()

func c02CodeLoading(el, attr string) bool {
	switch {
	case attr == "src" && (el == "script" || el == "iframe" || el == "frame" || el == "embed"):
		return true
	case attr == "data" && el == "object":
		return true
	case attr == "href" && (el == "base" || el == "link"):
		return true
	}
	return false
}

var c03Contents = []string{"x", "\"", "'", "<b>", "</script>", "javascript:alert(1)", "\" onmouseover=\"alert(1)", "' onmouseover='alert(1)", "a b", "&amp;",
	"x\"><script>alert(1)</script>", "\x00<", "/p/a?b=c#d", "color:red;", "--></style>", "x y=z"}

func c03Typed(typ string, ptr int, contents string) interface{} {
	var v interface{}
	for _, t := range safeTypes {
		if t.name == typ {
			v = t.mk(contents)
		}
	}
	for i := 0; i < ptr; i++ {
		v = ptrTo(v)
	}
	return v
}

// ptrTo returns a pointer to a copy of v (any dynamic type).
func ptrTo(v interface{}) interface{} {
	p := reflect.New(reflect.TypeOf(v))
	p.Elem().Set(reflect.ValueOf(v))
	return p.Interface()
}

func c03ReplayCase(in c03Replay) (bool, string) {
	p, pr := tmplx.Prepare(in.Program)
	if p == nil {
		return false, fmt.Sprint(pr.Err)
	}
	rt := execOne(p, c03Typed(in.Type, in.Ptr, in.Contents), false)
	p2, _ := tmplx.Prepare(in.Program)
	rp := execOne(p2, in.Contents, false)
	msg := fmt.Sprintf("program %q: %s(ptr level %d) %q -> %v %q %v; plain string -> %v %q %v", in.Program, in.Type, in.Ptr, in.Contents, rt.Kind, rt.Out, rt.Err, rp.Kind, rp.Out, rp.Err)
	switch in.Clause {
	case "typed-value-verbatim-outside-own-context":
		where, own, found := c03Locate(rt.Out, in.Contents, in.Type)
		return found && !own, msg + "; marker located in " + where
	case "attr-not-escaped":
		p3, _ := tmplx.Prepare(in.Program)
		_, ri, ok := p3.FindInert(1, tmplx.Data{})
		if !ok || rt.Kind != tmplx.OK {
			return false, msg
		}
		return tmplx.Sig(rt.Out, false) != tmplx.Sig(ri.Out, false), msg + fmt.Sprintf("; inert output %q", ri.Out)
	}
	same := rt.Kind == rp.Kind && rt.Out == rp.Out
	return !same && !c03Own(in.Type, in.Element, in.Attr), msg
}

func checkC03(r *core.Run) {
	var cells, accepted, execs, bypassOwn, equalPlain int64
	var classes sync.Map
	elements, attrs := policy.Elements(), policy.Attributes()
	type cell struct{ el, attr, q, pre string }
	var jobs []cell
	for _, el := range elements {
		jobs = append(jobs, cell{el, "", "", ""})
		for _, at := range attrs {
			for _, q := range []string{"\"", "'"} {
				jobs = append(jobs, cell{el, at, q, ""})
				if r.Thorough() {
					pre := "x "
					if c03URLAttrs[strings.ToLower(at)] {
						pre = "/p/"
					}
					jobs = append(jobs, cell{el, at, q, pre})
				}
			}
		}
	}
	// link with rel values
	for _, rel := range []string{"stylesheet", "icon", "alternate stylesheet", "preload", "modulepreload", "manifest"} {
		jobs = append(jobs, cell{"link rel=\"" + rel + "\"", "href", "\"", ""})
	}
	// elements with an earlier attribute whose value an engine might interpret (script type, link as, ...)
	for _, e := range []string{"script", "style", "iframe", "img", "a", "input", "object"} {
		for _, pa := range []string{`type="module"`, `type="text/html"`, `type="text/template"`, `type="text/x-template"`, `type="application/json"`, `type="application/ld+json"`, `type="importmap"`, `type="text/plain"`, `type="image"`,
			`language="vbscript"`, `as="script"`, `sandbox=""`, `nomodule`} {
			jobs = append(jobs, cell{e + " " + pa, "", "", ""})
			for _, at := range []string{"src", "href", "srcset", "style", "id", "title", "value", "data", "srcdoc"} {
				jobs = append(jobs, cell{e + " " + pa, at, "\"", ""})
			}
		}
	}
	core.ParallelFor(len(jobs), func(i int) {
		if r.Expired() {
			return
		}
		j := jobs[i]
		var text string
		elName := strings.Fields(j.el)[0]
		if j.attr == "" {
			text = "<" + j.el + ">{{$.P0}}</" + elName + ">"
		} else {
			text = "<" + j.el + " " + j.attr + "=" + j.q + j.pre + "{{$.P0}}" + j.q + "></" + elName + ">"
		}
		atomic.AddInt64(&cells, 1)
		p, _ := tmplx.Prepare(text)
		if p == nil {
			return
		}
		_, ri, okInert := p.FindInert(1, tmplx.Data{})
		atomic.AddInt64(&execs, 1)
		if ri.Kind == tmplx.Rejected || ri.Kind == tmplx.RejectedEnd || ri.Kind == tmplx.OtherError || ri.Kind == tmplx.Panicked {
			return
		}
		atomic.AddInt64(&accepted, 1)
		sigI := ""
		if okInert {
			sigI = tmplx.Sig(ri.Out, false)
		}
		for _, contents := range c03Contents {
			rp := execOne(p, contents, false)
			atomic.AddInt64(&execs, 1)
			for _, t := range safeTypes {
				for ptr := 0; ptr <= 2; ptr++ {
					rt := execOne(p, c03Typed(t.name, ptr, contents), false)
					atomic.AddInt64(&execs, 1)
					same := rt.Kind == rp.Kind && rt.Out == rp.Out
					if same {
						atomic.AddInt64(&equalPlain, 1)
					} else {
						atomic.AddInt64(&bypassOwn, 1)
						classes.Store(t.name+"@"+strings.ToLower(elName)+" "+strings.ToLower(j.attr), true)
						if !c03Own(t.name, j.el, j.attr) {
							where := "an attribute value"
							if j.attr == "" {
								where = "content of <" + strings.ToLower(elName) + ">"
							}
							in := c03Replay{Program: text, Element: j.el, Attr: j.attr, Type: t.name, Ptr: ptr, Contents: contents, Clause: "type-bypass-outside-own-context"}
							if bad, _ := c03ReplayCase(in); bad {
								r.Witness("type-bypass-outside-own-context", t.name+" in "+where, text+"\x00"+contents,
									fmt.Sprintf("program %s: %s value %s is emitted as %v %s but the plain string gives %v %s, and this is not a context the %s contract covers", core.Q(text), t.name, core.Q(contents), rt.Kind, core.Q(rt.Out), rp.Kind, core.Q(rp.Out), t.name), in)
							}
						}
					}
					if j.attr != "" && rt.Kind == tmplx.OK && okInert {
						if sg := tmplx.Sig(rt.Out, false); sg != sigI {
							in := c03Replay{Program: text, Element: elName, Attr: j.attr, Type: t.name, Ptr: ptr, Contents: contents, Clause: "attr-not-escaped"}
							r.Witness("attr-not-escaped", t.name, text+"\x00"+contents,
								fmt.Sprintf("program %s: %s value %s renders %s whose structure %s differs from the inert rendering's %s", core.Q(text), t.name, core.Q(contents), core.Q(rt.Out), sg, sigI), in)
						}
					}
				}
			}
		}
	})
	// Part B: program families where analyser and tokenizer may disagree about the context (raw-text end tags,
	// tag syntax variants): a typed value's contents may appear verbatim only where the tokenizer is in that
	// type's own context.
	var progB, execB int64
	typedMarker := "zTz<\"'>"
	visitB := func(n *tmplx.Node) bool {
		atomic.AddInt64(&progB, 1)
		p, _ := tmplx.Prepare(n.Text)
		if p == nil {
			return false
		}
		probe := tmplx.Data{}
		for k := 0; k < n.Slots; k++ {
			probe.Set(k, tmplx.Inert)
		}
		pr := p.Exec(&probe)
		if pr.Kind == tmplx.Rejected {
			return c01Infectious(pr.Err)
		}
		if pr.Kind == tmplx.RejectedEnd || pr.Kind == tmplx.OtherError || pr.Kind == tmplx.Panicked {
			return false
		}
		_, ri, okInert := p.FindInert(n.Slots, tmplx.Data{})
		if !okInert {
			ri.Out = ""
		}
		for k := 0; k < n.Slots; k++ {
			for _, t := range safeTypes {
				d, _, ok := p.FindInert(n.Slots, tmplx.Data{})
				if !ok {
					d = probe
				}
				d.Set(k, t.mk(typedMarker))
				res := p.Exec(&d)
				atomic.AddInt64(&execB, 1)
				if res.Kind != tmplx.OK {
					continue
				}
				where, own, found := c03Locate(res.Out, typedMarker, t.name)
				if !found {
					continue
				}
				if !own {
					in := c03Replay{Program: n.Text, Type: t.name, Contents: typedMarker, Clause: "typed-value-verbatim-outside-own-context"}
					r.Witness("typed-value-verbatim-outside-own-context", t.name+" in "+where, n.Raw,
						fmt.Sprintf("program %s: %s value %s appears verbatim in %s of the output %s", core.Q(n.Raw), t.name, core.Q(typedMarker), where, core.Q(res.Out)), in)
				}
			}
		}
		return false
	}
	for _, fam := range c01Families() {
		if fam.name != "raw" && fam.name != "tag" && fam.name != "cmt" {
			continue
		}
		depth := 3
		if r.Thorough() {
			depth = 4
		}
		ex := &tmplx.Explorer{Alpha: fam.alpha, MaxDepth: depth, SoftDepth: 0, Expired: r.Expired}
		ex.Visit = func(n *tmplx.Node, underPruned bool) bool { return visitB(n) }
		ex.Run()
		r.Add("states", ex.States)
		r.Add("transitions", ex.Transitions)
	}
	for _, pf := range c01ProductFamilies(false) {
		if !strings.HasPrefix(pf.name, "rawend-") {
			continue
		}
		nprog := tmplx.Product(pf.parts, func(raw string) {
			if nd := tmplx.NodeFromRaw(raw, 9); nd != nil && !r.Expired() {
				visitB(nd)
			}
		})
		r.Add("states", nprog)
		r.Add("transitions", nprog)
	}
	// programs in which the analyser has been seen to assume another context than a tokenizer: recursive helpers that end
	// in another context than they start in, names split over text nodes, helpers shared between call sites
	S := tmplx.Slot
	for _, raw := range []string{
		`{{define "rh"}}` + S + `{{if false}}{{template "rh" $}}{{end}}<script>1{{end}}<b>{{template "rh" $}}</script>`,
		`{{define "rh"}}` + S + `{{if false}}{{template "rh" $}}{{end}}" title="x{{end}}<a href="{{template "rh" $}}">y</a>`,
		`{{define "rh"}}` + S + `{{if false}}{{template "rh" $}}{{end}}<style>a{}{{end}}<b>{{template "rh" $}}</style>`,
		`{{define "rh"}}` + S + `{{if false}}{{template "rh" $}}{{end}}" id="x{{end}}<a title="{{template "rh" $}}">y</a>`,
		`<s{{$x := 1}}cript>` + S + `</script>`, `<s{{if $.C}}{{end}}tyle>` + S + `</style>`, `<t{{$x := 1}}extarea>` + S + `</textarea>`, `<t{{/* c */}}itle>` + S + `</title>`,
		`<button for{{if true}}maction{{end}}="` + S + `">`, `<iframe src{{if true}}doc{{end}}="` + S + `"></iframe>`, `<img src{{$x := 1}}set="` + S + `">`, `<a hre{{$x := 1}}f="` + S + `">`,
		`<a title{{if true}}/{{end}}="` + S + `">`, `<a i{{$x := 1}}d="` + S + `">`, `<p s{{$x := 1}}tyle="` + S + `">`,
		`{{define "hp"}}` + S + `{{end}}<img src="{{template "hp" $}}">{{if true}}<script{{else}}<img{{end}} src="{{template "hp" $}}"></script>`,
		`{{define "hp"}}` + S + `{{end}}{{template "hp" $}}<svg>{{template "hp" $}}</svg>`,
		`{{define "hp"}}` + S + `{{end}}<p>{{template "hp" $}}</p><script>{{template "hp" $}}</script>`,
		`{{define "hp"}}` + S + `{{end}}<a title="{{template "hp" $}}">x</a><a {{if true}}href{{else}}title{{end}}="{{template "hp" $}}">y</a>`,
		`{{define "hp"}}` + S + `{{end}}<a href="{{template "hp" $}}">x</a><script src="{{template "hp" $}}"></script>`,
		`<link rel="stylesheet {{$x := 1}}icon" href="` + S + `">`, `<link rel="{{if true}}stylesheet {{end}}icon" href="` + S + `">`, `<link rel="{{if false}}{{else}}stylesheet {{end}}icon" href="` + S + `">`,
	} {
		if nd := tmplx.NodeFromRaw(raw, 9); nd != nil {
			visitB(nd)
		} else {
			r.HarnessError("C03 part B: program %s could not be built", raw)
		}
	}
	r.Set("part_b", fmt.Sprintf("typed values in %d programs of the raw/tag/cmt fragment families and raw-text end-tag products: %d executions; contents may appear verbatim only where the tokenizer is in the type's own context", progB, execB))
	if r.Expired() {
		r.NotExhaustive("internal deadline reached")
	}
	var nclasses int64
	classes.Range(func(_, _ interface{}) bool { nclasses++; return true })
	r.Add("states", cells)
	r.Add("transitions", execs)
	r.Set("traces_validated_against_impl", cells)
	r.Set("cells", fmt.Sprintf("%d elements x (%d attributes x 2 quotings%s + element content) + link rel cells = %d programs, %d accepted", len(elements), len(attrs), map[bool]string{true: " x {no prefix, static prefix}", false: ""}[r.Thorough()], cells, accepted))
	r.Set("executions", execs)
	r.Set("typed_equal_to_plain", equalPlain)
	r.Set("typed_differs_from_plain", bypassOwn)
	r.Set("distinct_type_context_pairs_with_special_treatment", nclasses)
	r.Set("space_per_cell", fmt.Sprintf("%d types x {value, pointer, pointer to pointer} x %d contents", len(safeTypes), len(c03Contents)))
	r.Sample(map[string]string{"program": `<div title="{{$.P0}}">`, "type": "HTML", "contents": `" onmouseover="alert(1)`})
	r.Sample(map[string]string{"program": `<script>{{$.P0}}</script>`, "type": "Script", "contents": `x`})
	r.Assume("the contexts a type's contract covers are decided by element/attribute names from the HTML standard (URL-valued, ID-reference, style, srcdoc, on*), independently of the engine's tables")
	if nclasses < 5 && accepted > 0 {
		r.HarnessError("vacuous: only %d (type, context) pairs received special treatment", nclasses)
	}
}

// c03Locate finds where marker appears verbatim in out according to the tokenizer and whether that is a
// context the type's contract covers.
func c03Locate(out, marker, typ string) (where string, own, found bool) {
	off := strings.Index(out, marker)
	if off < 0 {
		return "", false, false
	}
	tok := tmplx.Tokenize(out, false)
	where = "outside any token"
	last := ""
	for _, tk := range tok.Tokens {
		if tk.Type == htmltok.StartTag {
			last = tk.Name
		}
		if off >= tk.Start && off < tk.End {
			switch tk.Type {
			case htmltok.Text:
				where = "text in " + tk.Mode + " mode"
				switch {
				case tk.Mode == "data":
					own = typ == "HTML"
				case tk.Mode == "script":
					own = typ == "Script"
					where += " (script)"
				case tk.Mode == "rawtext" && last == "style":
					own = typ == "StyleSheet"
					where += " (style)"
				case tk.Mode == "rawtext" && (last == "iframe" || last == "noscript"):
					own = typ == "HTML" // fallback content, HTML context under the reviewed policy
				}
			case htmltok.Comment:
				where = "a comment"
			case htmltok.Doctype:
				where = "a DOCTYPE"
			default:
				where = "a tag"
			}
		}
	}
	if where == "outside any token" {
		where = "an unfinished construct (" + tok.Final.String() + ")"
		own = tok.Final == htmltok.Data && typ == "HTML"
	}
	return where, own, true
}
