package main

import (
	"errors"
	"fmt"
	"strings"
	"sync"
	"sync/atomic"
	"time"

	"verif/internal/core"
	"verif/internal/tmplx"
)

type nilStringer struct{ s *string }

func (n *nilStringer) String() string { return *n.s } // panics on a nil receiver / nil field

type goodStruct struct {
	A int
	B string
}

func (g goodStruct) Method() string { return "m<" + g.B + ">" }

// c08Syntax: every node kind of text/template/parse x output contexts x data shapes; only oracle: no panic escapes.
func c08Syntax(r *core.Run) {
	snippets := c08Snippets
	contexts := []string{`%s`, `<a title="%s">`, `<a href="%s">`, `<a href="/p?q=%s">`, `<script>%s</script>`, `<textarea>%s</textarea>`, `<a %s>`, `<!--%s-->`, `<style>%s</style>`, `<a title=%s>`,
		`<img srcset="%s">`, `<a dir="%s">`, `<a id="%s">`, `<a style="%s">`, `<%s>`, `<a title='%s' href="%s">`, `<script src="%s"></script>`, `<iframe srcdoc="%s"></iframe>`,
		// script text with ES6 template literals (the analyser scans them for balance), comments, odd endings
		"<script>var s = `it\\`s`;</script>%s", "<script>var s = `a${1}b\\${c}`;</script>%s", "<script>`\\\\`</script>%s", "<script>// `\n/* ` */ '`' \"`\"</script>%s", "<script>`${`${1}`}`</script>%s",
		"<style>/* ` */ a{}</style>%s", "<!-- %s", "%s<!--", "<textarea>%s", "<a title=\"%s", "<script>`</script>%s", "<xmp>%s</xmp>", "<iframe>%s</iframe>%s", "<noscript><p title=\"%s\"></noscript>"}
	var np *string
	var ns *nilStringer
	var nilErr error
	shapes := []interface{}{
		nil, "s<", 1, 1.5, true, []byte("b<"), np, ns, &nilStringer{}, fmt.Stringer(ns), nilErr, errors.New("e<"), make(chan int), func() string { return "f" }, func() {},
		goodStruct{1, "x"}, &goodStruct{2, "y"}, map[string]int{"A": 1}, []int{1}, [2]string{"a", "b"}, map[string]interface{}{"A": map[string]interface{}{"B": nil}},
	}
	for _, t := range safeTypes {
		shapes = append(shapes, t.mk("v<"), ptrTo(t.mk("p<")))
	}
	// pointer cycles: a pointer to a pointer can point to itself, or two of them to each other
	var sp selfPtr
	sp = &sp
	var ca cycA
	var cb cycB
	ca, cb = &cb, &ca
	str := "s<"
	ps := &str
	firstCyclic := len(shapes)
	shapes = append(shapes, sp, &sp, ca, &ps, struct{ P selfPtr }{sp}, map[string]interface{}{"A": sp}, []interface{}{sp})
	var hungContexts sync.Map
	var hangSeen int32 // after the first hang the cyclic shapes are skipped: every abandoned execution keeps a core busy
	var programs, execs, panics int64
	r.Set("cyclic_pointer_snippets", fmt.Sprintf("%d of %d snippets (in the others text/template itself follows the pointer cycle)", len(snippets)-len(c08StdFollowsPointer), len(snippets)))
	type job struct {
		ctx, snip string
		cyc       bool
	}
	var jobs []job
	for _, c := range contexts {
		for _, s := range snippets {
			jobs = append(jobs, job{c, s, !c08StdFollowsPointer[s]})
		}
	}
	core.ParallelFor(len(jobs), func(i int) {
		j := jobs[i]
		text := strings.ReplaceAll(j.ctx, "%s", j.snip)
		// defines must be top level: move them to the end
		if k := strings.Index(j.snip, "{{define"); k >= 0 && j.ctx != "%s" {
			body, def := j.snip[:k], j.snip[k:]
			if strings.HasPrefix(j.snip, "{{define") {
				e := strings.Index(j.snip, "{{end}}") + 7
				def, body = j.snip[:e], j.snip[e:]
			}
			text = strings.ReplaceAll(j.ctx, "%s", body) + def
		}
		atomic.AddInt64(&programs, 1)
		for si, sh := range shapes {
			if _, hung := hungContexts.Load(j.ctx); hung || r.Expired() {
				return // every execution in this context would wait for the watchdog again
			}
			for _, c := range []bool{true, false} {
				if si >= firstCyclic && (!j.cyc || atomic.LoadInt32(&hangSeen) != 0) {
					continue
				}
				p, pr := tmplx.Prepare(text)
				if pr.Kind == tmplx.Panicked {
					atomic.AddInt64(&panics, 1)
					r.Witness("panic", "syntax:"+panicClass(fmt.Sprint(pr.Panic)), text, fmt.Sprintf("parsing %s panicked: %v", core.Q(text), pr.Panic), map[string]string{"Program": text})
					return
				}
				if p == nil {
					return
				}
				d := tmplx.Data{P0: sh, C: c, L: []interface{}{1, map[string]int{"X": 1}}}
				res, hung := execGuarded(p, &d)
				atomic.AddInt64(&execs, 1)
				if hung {
					hungContexts.Store(j.ctx, true)
					atomic.StoreInt32(&hangSeen, 1)
					r.Witness("hang", "syntax", text, fmt.Sprintf("executing %s with %T did not return within 20 s, nor within 90 s on a second attempt", core.Q(text), sh), map[string]string{"Program": text, "Shape": fmt.Sprintf("%T", sh)})
					continue
				}
				if res.Kind == tmplx.Panicked {
					atomic.AddInt64(&panics, 1)
					r.Witness("panic", "syntax:"+panicClass(fmt.Sprint(res.Panic)), text, fmt.Sprintf("executing %s with %T panicked: %v", core.Q(text), sh, res.Panic), map[string]string{"Program": text, "Shape": fmt.Sprintf("%T", sh)})
				}
			}
		}
	})
	r.Set("syntax_sweep", fmt.Sprintf("%d snippets (every parse node kind, predefined escapers in every position) x %d contexts = %d programs x %d data shapes x 2 conditions: %d executions, %d panics", len(snippets), len(contexts), programs, len(shapes), execs, panics))
	r.Add("states", programs)
	r.Add("transitions", execs)
}

type selfPtr *selfPtr
type cycA *cycB
type cycB *cycA

// execGuarded runs one execution under a generous watchdog (executions take microseconds). A timeout counts as a
// hang only if a second attempt times out as well; the abandoned goroutines keep spinning until the process exits.
func execGuarded(p *tmplx.Prepared, d *tmplx.Data) (tmplx.Result, bool) {
	for attempt := 0; attempt < 2; attempt++ {
		done := make(chan tmplx.Result, 1)
		dd := *d
		go func() { done <- p.Exec(&dd) }()
		select {
		case res := <-done:
			return res, false
		case <-time.After(time.Duration(20+70*attempt) * time.Second): // a second, longer wait before a hang is believed
		}
	}
	return tmplx.Result{}, true
}

var c08Snippets = []string{
	`{{$.P0}}`, `{{$.P0 | html}}`, `{{html $.P0}}`, `{{html $.P0 $.P0}}`, `{{html}}`, `{{$.P0 | urlquery}}`, `{{urlquery $.P0 "x"}}`, `{{urlquery}}`,
	`{{$.P0 | html | urlquery}}`, `{{html $.P0 | html}}`, `{{$.P0 | html | print}}`, `{{print $.P0}}`, `{{printf "%v" $.P0}}`, `{{($.P0)}}`, `{{(print $.P0) | html}}`,
	`{{$x := $.P0}}{{$x}}`, `{{$x := $.P0}}{{$x = "y"}}{{$x}}`, `{{if $.C}}a{{else if $.C2}}b{{else}}{{$.P0}}{{end}}`,
	`{{range $.L}}{{break}}{{end}}`, `{{range $.L}}{{continue}}{{end}}`, `{{range $i, $e := $.L}}{{$e}}{{if $i}}{{break}}{{end}}{{end}}`, `{{range $.L}}{{.}}{{else}}{{$.P0}}{{end}}`,
	`{{/* c */}}`, `{{- $.P0 -}}`, `{{block "blk" $.P0}}{{.}}{{end}}`, `{{template "nope"}}`, `{{template "self" $}}{{define "self"}}{{if .C}}{{template "self" .}}{{end}}{{.P0}}{{end}}`,
	`{{with $.P0}}{{.}}{{else}}e{{end}}`, `{{$.P0.Method}}`, `{{$.P0.B}}`, `{{index $.L 0}}`, `{{index $.L 9}}`, `{{len $.L}}`, `{{and $.P0 $.C}}`, `{{not $.P0}}`, `{{call $.P0}}`,
	`{{slice $.P0 0 1}}`, `{{.P0}}`, `{{.}}`, `{{$}}`, `{{"lit<"}}`, `{{1}}`, `{{true}}`, `{{define "d"}}x{{$.P0}}{{end}}{{template "d" $}}`, `{{template "d" $.P0}}{{define "d"}}{{.}}{{end}}`,
	// recursive templates whose end context keeps flipping (inside a tag / inside a quoted value; in text / in a comment):
	// the search for a fixed point of the output context must give up
	`{{template "osc"}}{{define "osc"}}{{template "osc"}} a="{{end}}`, `{{template "osq"}}{{define "osq"}}{{template "osq"}}"{{end}}`, `{{template "osx" $}}{{define "osx"}}{{if .C}}{{template "osx" .}}{{end}}<b title='{{end}}`,
	`{{$.P0 | printf "%s%s" "a"}}`, `{{js $.P0}}`, `{{$.P0 | js | html}}`, `{{eq $.P0 1}}`, `{{$.P0.A.B.C}}`, `{{(index $.L 0).X}}`,
}

// c08StdFollowsPointer lists the snippets in which text/template itself dereferences $.P0 (field or method access,
// or its own html / urlquery / js built-ins in a non-final position, which format their argument with printableValue).
// The standard library follows pointers without a cycle check there, so these executions never return for a
// pointer cycle whatever safehtml does; the pointer-cycle shapes are not combined with them.
var c08StdFollowsPointer = map[string]bool{
	`{{$.P0 | html}}`: true, `{{$.P0 | urlquery}}`: true, `{{$.P0.Method}}`: true, `{{$.P0.B}}`: true, `{{js $.P0}}`: true, `{{$.P0 | js | html}}`: true, `{{$.P0.A.B.C}}`: true,
}
