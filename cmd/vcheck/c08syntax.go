package main

import (
	"errors"
	"fmt"
	"strings"
	"sync/atomic"

	"verif/internal/core"
	"verif/internal/tmplx"
)

type nilStringer struct{ s *string }

func (n *nilStringer) String() string { return *n.s } // panics on a nil receiver / nil field

type goodStruct struct {
	A int
	B string
}

func (g goodStruct) Method() string { return "m<" + g.B + ">" }

// c08Syntax: every node kind of text/template/parse x output contexts x data shapes; only oracle: no panic escapes.
func c08Syntax(r *core.Run) {
	snippets := []string{
		`{{$.P0}}`, `{{$.P0 | html}}`, `{{html $.P0}}`, `{{html $.P0 $.P0}}`, `{{html}}`, `{{$.P0 | urlquery}}`, `{{urlquery $.P0 "x"}}`, `{{urlquery}}`,
		`{{$.P0 | html | urlquery}}`, `{{html $.P0 | html}}`, `{{$.P0 | html | print}}`, `{{print $.P0}}`, `{{printf "%v" $.P0}}`, `{{($.P0)}}`, `{{(print $.P0) | html}}`,
		`{{$x := $.P0}}{{$x}}`, `{{$x := $.P0}}{{$x = "y"}}{{$x}}`, `{{if $.C}}a{{else if $.C2}}b{{else}}{{$.P0}}{{end}}`,
		`{{range $.L}}{{break}}{{end}}`, `{{range $.L}}{{continue}}{{end}}`, `{{range $i, $e := $.L}}{{$e}}{{if $i}}{{break}}{{end}}{{end}}`, `{{range $.L}}{{.}}{{else}}{{$.P0}}{{end}}`,
		`{{/* c */}}`, `{{- $.P0 -}}`, `{{block "blk" $.P0}}{{.}}{{end}}`, `{{template "nope"}}`, `{{template "self" $}}{{define "self"}}{{if .C}}{{template "self" .}}{{end}}{{.P0}}{{end}}`,
		`{{with $.P0}}{{.}}{{else}}e{{end}}`, `{{$.P0.Method}}`, `{{$.P0.B}}`, `{{index $.L 0}}`, `{{index $.L 9}}`, `{{len $.L}}`, `{{and $.P0 $.C}}`, `{{not $.P0}}`, `{{call $.P0}}`,
		`{{slice $.P0 0 1}}`, `{{.P0}}`, `{{.}}`, `{{$}}`, `{{"lit<"}}`, `{{1}}`, `{{true}}`, `{{define "d"}}x{{$.P0}}{{end}}{{template "d" $}}`, `{{template "d" $.P0}}{{define "d"}}{{.}}{{end}}`,
		`{{$.P0 | printf "%s%s" "a"}}`, `{{js $.P0}}`, `{{$.P0 | js | html}}`, `{{eq $.P0 1}}`, `{{$.P0.A.B.C}}`, `{{(index $.L 0).X}}`,
	}
	contexts := []string{`%s`, `<a title="%s">`, `<a href="%s">`, `<a href="/p?q=%s">`, `<script>%s</script>`, `<textarea>%s</textarea>`, `<a %s>`, `<!--%s-->`, `<style>%s</style>`, `<a title=%s>`,
		`<img srcset="%s">`, `<a dir="%s">`, `<a id="%s">`, `<a style="%s">`, `<%s>`, `<a title='%s' href="%s">`, `<script src="%s"></script>`, `<iframe srcdoc="%s"></iframe>`}
	var np *string
	var ns *nilStringer
	var nilErr error
	shapes := []interface{}{
		nil, "s<", 1, 1.5, true, []byte("b<"), np, ns, &nilStringer{}, fmt.Stringer(ns), nilErr, errors.New("e<"), make(chan int), func() string { return "f" }, func() {},
		goodStruct{1, "x"}, &goodStruct{2, "y"}, map[string]int{"A": 1}, []int{1}, [2]string{"a", "b"}, map[string]interface{}{"A": map[string]interface{}{"B": nil}},
	}
	for _, t := range safeTypes {
		shapes = append(shapes, t.mk("v<"), ptrTo(t.mk("p<")))
	}
	var programs, execs, panics int64
	type job struct{ ctx, snip string }
	var jobs []job
	for _, c := range contexts {
		for _, s := range snippets {
			jobs = append(jobs, job{c, s})
		}
	}
	core.ParallelFor(len(jobs), func(i int) {
		j := jobs[i]
		text := strings.ReplaceAll(j.ctx, "%s", j.snip)
		// defines must be top level: move them to the end
		if k := strings.Index(j.snip, "{{define"); k >= 0 && j.ctx != "%s" {
			body, def := j.snip[:k], j.snip[k:]
			if strings.HasPrefix(j.snip, "{{define") {
				e := strings.Index(j.snip, "{{end}}") + 7
				def, body = j.snip[:e], j.snip[e:]
			}
			text = strings.ReplaceAll(j.ctx, "%s", body) + def
		}
		atomic.AddInt64(&programs, 1)
		for _, sh := range shapes {
			for _, c := range []bool{true, false} {
				p, pr := tmplx.Prepare(text)
				if pr.Kind == tmplx.Panicked {
					atomic.AddInt64(&panics, 1)
					r.Witness("panic", "syntax:"+panicClass(fmt.Sprint(pr.Panic)), text, fmt.Sprintf("parsing %s panicked: %v", core.Q(text), pr.Panic), map[string]string{"Program": text})
					return
				}
				if p == nil {
					return
				}
				d := tmplx.Data{P0: sh, C: c, L: []interface{}{1, map[string]int{"X": 1}}}
				res := p.Exec(&d)
				atomic.AddInt64(&execs, 1)
				if res.Kind == tmplx.Panicked {
					atomic.AddInt64(&panics, 1)
					r.Witness("panic", "syntax:"+panicClass(fmt.Sprint(res.Panic)), text, fmt.Sprintf("executing %s with %T panicked: %v", core.Q(text), sh, res.Panic), map[string]string{"Program": text, "Shape": fmt.Sprintf("%T", sh)})
				}
			}
		}
	})
	r.Set("syntax_sweep", fmt.Sprintf("%d snippets (every parse node kind, predefined escapers in every position) x %d contexts = %d programs x %d data shapes x 2 conditions: %d executions, %d panics", len(snippets), len(contexts), programs, len(shapes), execs, panics))
	r.Add("states", programs)
	r.Add("transitions", execs)
}
