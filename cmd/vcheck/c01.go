package main

import (
	"encoding/json"
	"fmt"
	"strings"
	"sync"
	"sync/atomic"

	"verif/internal/core"
	"verif/internal/oracle/htmltok"
	"verif/internal/tmplx"
)

func init() {
	register("C01", "model_checking", checkC01)
	replayers["C01"] = func(raw json.RawMessage) (bool, string) {
		var in c01Replay
		json.Unmarshal(raw, &in)
		return c01ReplayCase(in)
	}
}

type c01Replay struct {
	Program string        // template text (slots instantiated)
	Slots   int           //
	C, C2   bool          //
	L       int           // length of the ranged list
	W       bool          // with-value present
	Slot    int           // slot bound to the payload (-1: inert run)
	Payload string        // payload bytes
	As      string        // string | bytes | stringer | error | ptr
	Clause  string        //
	Extra   []interface{} `json:",omitempty"`
}

type strer string

func (s strer) String() string { return string(s) }

type errv string

func (e errv) Error() string { return string(e) }

func c01Bind(payload, as string) interface{} {
	switch as {
	case "bytes":
		return []byte(payload)
	case "stringer":
		return strer(payload)
	case "error":
		return errv(payload)
	case "ptr":
		p := payload
		return &p
	case "ptrptr":
		p := payload
		q := &p
		return &q
	}
	if v, ok := bindNumeric(as, payload); ok {
		return v
	}
	return payload
}

// distinguishing payloads: every structural character, alone and in attack shapes
var c01Payloads = []string{
	"", "\"", "'", "<", ">", "&", "=", " ", "\t", "\n", "\f", "\r", "/", "`", "-", "!", "\x00", "\x80", "\\",
	"</script>", "</SCRIPT >", "</textarea>", "</title>", "</style>", "-->", "--!>", "]]>", "&lt", "&#x3c", "&#34;", "<!--", "<script>",
	"javascript:alert(1)", "x y=z", "\"><img src=x onerror=1>", "'><b>", "*/", "x\" y=\"", "x' y='", "x onmouseover=alert(1) y=",
	"><a", "<a b>", "</a>", "</p >", "<!-->", "<?x>", "\"/>", "0 \f\"'>", "&quot;><x>", "<![CDATA[", "</", "<", "z\x00\"",
}

func c01Base(c, c2 bool, l int, w bool) tmplx.Data {
	d := tmplx.Data{C: c, C2: c2}
	for i := 0; i < l; i++ {
		d.L = append(d.L, i)
	}
	if w {
		d.W = 1
	}
	return d
}

func c01ReplayCase(in c01Replay) (bool, string) {
	p, r := tmplx.Prepare(in.Program)
	if p == nil {
		return false, "program does not parse: " + fmt.Sprint(r.Err)
	}
	base := c01Base(in.C, in.C2, in.L, in.W)
	d, ri, ok := p.FindInert(in.Slots, base)
	if !ok {
		return false, fmt.Sprintf("program produces no output with inert values: %v %v", ri.Kind, ri.Err)
	}
	sigI := tmplx.SigOf(tmplx.Tokenize(ri.Out, false), true)
	if in.Slot < 0 && in.Clause == "comment-in-output" {
		for _, t := range tmplx.Tokenize(ri.Out, false).Tokens {
			if t.Type == htmltok.Comment {
				return true, fmt.Sprintf("program %q\n inert output %q contains a comment token (sig %s)", in.Program, ri.Out, sigI)
			}
		}
		return false, fmt.Sprintf("program %q\n inert output %q has no comment token", in.Program, ri.Out)
	}
	if in.Slot < 0 {
		auth, _ := tmplx.Author(in.Program, &d)
		sigA := tmplx.SigOf(tmplx.Tokenize(auth, false), false)
		return sigA != sigI, fmt.Sprintf("program %q\n inert output %q sig %s\n author output %q sig(no comments) %s", in.Program, ri.Out, sigI, auth, sigA)
	}
	d.Set(in.Slot, c01Bind(in.Payload, in.As))
	rd := p.Exec(&d)
	if rd.Kind != tmplx.OK {
		return false, fmt.Sprintf("execution with payload fails: %v %v", rd.Kind, rd.Err)
	}
	sigD := tmplx.SigOf(tmplx.Tokenize(rd.Out, false), true)
	return sigD != sigI, fmt.Sprintf("program %q slot %d payload %q (%s)\n output %q\n sig  %s\n inert output %q\n sig  %s", in.Program, in.Slot, in.Payload, in.As, rd.Out, sigD, ri.Out, sigI)
}

type c01Family struct {
	name        string
	alpha       []tmplx.Frag
	quick, thor int
	tier2       bool
}

func c01Families() []c01Family {
	S := tmplx.Slot
	fTag := tmplx.T("<a", "<A", "<img", "<x-y", " ", "\f", "\t", "\r", "\v", "\xa0", "/", "=", "href", "title", "TiTle", "data-x", "\"", "'", ">", "/>", "x", "</a>", "</A\f>", S)
	fRaw := tmplx.T("<script>", "<style>", "<textarea>", "<title>", "<TITLE>", "</script>", "</SCRIPT\f>", "</script\r>", "</textarea ", "</titlex", "</", "<", "x", "<!--", "-->", ">", S)
	fCmt := append(tmplx.T("<!--", "-->", "--!>", "<!-->", "<!--->", "-", "!", ">", "<", "x", "<a title=\"", "\"", S),
		tmplx.Frag{Text: `{{template "h" $}}`}, tmplx.Frag{Text: `{{template "bh" $}}`})
	fDecl := tmplx.T("<!DOCTYPE html>", "<!doctype", "<![CDATA[", "]]>", "<?", "?>", "</ ", "<1", "&lt", "&#", "x", ">", "<!", "<?xml a=\"b > c\"?>", S)
	core10 := tmplx.T("<a ", "href=\"", "title='", "\"", "'", ">", "x", "/x?", S, "</a>")
	fCtl := append(append([]tmplx.Frag{}, core10...), tmplx.If, tmplx.Else, tmplx.End, tmplx.Range, tmplx.With,
		tmplx.Frag{Text: `{{template "h" $}}`}, tmplx.Frag{Text: `{{template "q" $}}`}, tmplx.Frag{Text: `{{template "open" $}}`}, tmplx.Frag{Text: `{{template "ot" $}}`})
	fHelper := append(tmplx.T(S, "\"", "\">", "x", "<b>"), tmplx.Frag{Text: `{{template "open" $}}`}, tmplx.Frag{Text: `{{template "q" $}}`}, tmplx.Frag{Text: `{{template "h" $}}`})
	var full []tmplx.Frag
	seen := map[string]bool{}
	for _, fam := range [][]tmplx.Frag{fTag, fRaw, fCmt, fDecl, fCtl} {
		for _, f := range fam {
			if !seen[f.Text] {
				seen[f.Text] = true
				full = append(full, f)
			}
		}
	}
	full = append(full, tmplx.T("<svg>", "<p>", "<textarea", "<script", " src=\"", " style=\"", " onclick=\"", "<input value=", "<br/>", "</textarea>", "<link rel=\"stylesheet\" href=\"", "<iframe srcdoc=\"", "<noscript>", "<plaintext>", "<xmp>", "&amp;", "\n")...)
	return []c01Family{
		{"tag", fTag, 4, 5, true},
		{"raw", fRaw, 4, 5, true},
		{"cmt", fCmt, 4, 5, true},
		{"decl", fDecl, 4, 5, true},
		{"ctl", fCtl, 4, 5, false},
		{"helper", fHelper, 6, 7, false},
		{"full", full, 2, 3, false},
	}
}

// infectious analysis errors: the error is raised at a fixed point of text that later fragments cannot change
func c01Infectious(err error) bool {
	s := fmt.Sprint(err)
	if strings.Contains(s, "re-entry") {
		return false
	}
	return strings.Contains(s, "cannot escape action") || strings.Contains(s, "in unquoted attr") || strings.Contains(s, "in attribute name") ||
		strings.Contains(s, "expected space, attr name, or end of tag")
}

type c01stats struct {
	programs, accepted, rejected, rejectedEnd, execs, noInert, parseErr, panics, pruneChecked, xnetCompared, xnetDisagree int64
}

func checkC01(r *core.Run) {
	var st c01stats
	sigs := sync.Map{}
	var nsigs int64
	fams := c01Families()
	for _, fam := range fams {
		fam := fam
		depth := fam.quick
		if r.Thorough() {
			depth = fam.thor
		}
		ex := &tmplx.Explorer{Alpha: fam.alpha, MaxDepth: depth, SoftDepth: 3, Expired: r.Expired}
		ex.Visit = func(n *tmplx.Node, underPruned bool) bool {
			return c01Visit(r, &st, &sigs, &nsigs, fam, n, underPruned)
		}
		ex.Run()
		r.Set("family_"+fam.name, fmt.Sprintf("%d fragments, depth<=%d: prefixes=%d appends=%d pruned-subtrees=%d", len(fam.alpha), depth, ex.States, ex.Transitions, ex.Pruned))
		r.Add("states", ex.States)
		r.Add("transitions", ex.Transitions)
		if ex.Capped != 0 {
			r.NotExhaustive("family " + fam.name + ": internal deadline reached before depth " + fmt.Sprint(depth) + " was completed")
		}
	}
	// grammar-shaped product families: every lexical variant of one tag / one raw-text element
	for _, pf := range c01ProductFamilies(r.Thorough()) {
		pf := pf
		fam := c01Family{name: pf.name}
		n := tmplx.Product(pf.parts, func(raw string) {
			if r.Expired() {
				return
			}
			if nd := tmplx.NodeFromRaw(raw, 9); nd != nil {
				c01Visit(r, &st, &sigs, &nsigs, fam, nd, false)
			}
		})
		r.Set("family_"+pf.name, fmt.Sprintf("product of %d parts: %d programs", len(pf.parts), n))
		r.Add("states", n)
		r.Add("transitions", n)
		if r.Expired() {
			r.NotExhaustive("product family " + pf.name + ": internal deadline reached")
		}
	}
	r.Set("traces_validated_against_impl", st.programs)
	r.Set("programs_accepted", st.accepted)
	r.Set("programs_rejected_by_analysis", st.rejected)
	r.Set("programs_rejected_end_context", st.rejectedEnd)
	r.Set("programs_without_inert_binding", st.noInert)
	r.Set("executions", st.execs)
	r.Set("pruning_soundness_checked", st.pruneChecked)
	r.Set("distinct_output_structures", nsigs)
	r.Set("panics_seen", st.panics)
	r.Set("xnet_crosscheck", fmt.Sprintf("outputs compared with golang.org/x/net/html tokenizer: %d, structural disagreements: %d", st.xnetCompared, st.xnetDisagree))
	if nsigs < 20 && st.accepted > 0 {
		r.HarnessError("vacuous exploration: only %d distinct output structures", nsigs)
	}
	r.Sample(map[string]string{"program": "<a title='" + "{{$.P0}}" + "'>", "payload": "x' y='", "family": "tag"})
	r.Sample(map[string]string{"program": "<script></SCRIPT\f>{{$.P0}}", "payload": "</script>", "family": "raw"})
	r.Assume("oracle O1 (WHATWG tokenizer, validated on 7028 html5lib cases at setup) decides structure; scripting-enabled content model; foreign content only via the Foreign configuration")
	r.Assume("payload strings are the 53 distinguishing payloads (every structural character alone and in attack shapes) bound as string, and on shallow programs also as []byte/Stringer/error/*string; arbitrary byte strings are covered compositionally through C10")
}

func c01Visit(r *core.Run, st *c01stats, sigs *sync.Map, nsigs *int64, fam c01Family, n *tmplx.Node, underPruned bool) bool {
	atomic.AddInt64(&st.programs, 1)
	p, pr := tmplx.Prepare(n.Text)
	if p == nil {
		if pr.Kind == tmplx.Panicked {
			atomic.AddInt64(&st.panics, 1)
		}
		atomic.AddInt64(&st.parseErr, 1)
		return false
	}
	cs, c2s, ls, ws := []bool{false}, []bool{false}, []int{0}, []bool{false}
	if n.Uses.C {
		cs = []bool{true, false}
	}
	if n.Uses.C2 {
		c2s = []bool{true, false}
	}
	if n.Uses.L {
		ls = []int{0, 1, 2}
	}
	if n.Uses.W {
		ws = []bool{true, false}
	}
	first := true
	prune := false
	for _, c := range cs {
		for _, c2 := range c2s {
			for _, l := range ls {
				for _, w := range ws {
					if !first {
						// analysis already happened on p; use a fresh set so every binding starts from the initial state
						p, _ = tmplx.Prepare(n.Text)
					}
					base := c01Base(c, c2, l, w)
					d, ri, ok := p.FindInert(n.Slots, base)
					atomic.AddInt64(&st.execs, 1)
					if first {
						first = false
						switch ri.Kind {
						case tmplx.Rejected:
							atomic.AddInt64(&st.rejected, 1)
							if c01Infectious(ri.Err) {
								prune = true
							}
						case tmplx.RejectedEnd, tmplx.OtherError:
							atomic.AddInt64(&st.rejectedEnd, 1)
						case tmplx.Panicked:
							atomic.AddInt64(&st.panics, 1)
						}
						if underPruned {
							atomic.AddInt64(&st.pruneChecked, 1)
							if ri.Kind != tmplx.Rejected {
								r.HarnessError("pruning unsound: extension %q of a rejected prefix is %v", n.Text, ri.Kind)
							}
						}
						if ri.Kind == tmplx.OK || ri.Kind == tmplx.ExecError {
							atomic.AddInt64(&st.accepted, 1)
						}
					}
					if ri.Kind == tmplx.Rejected || ri.Kind == tmplx.RejectedEnd || ri.Kind == tmplx.OtherError || ri.Kind == tmplx.Panicked {
						return prune
					}
					if !ok {
						atomic.AddInt64(&st.noInert, 1)
						continue
					}
					c01Check(r, st, sigs, nsigs, fam, n, p, base, d, ri.Out)
				}
			}
		}
	}
	return prune
}

func c01Check(r *core.Run, st *c01stats, sigs *sync.Map, nsigs *int64, fam c01Family, n *tmplx.Node, p *tmplx.Prepared, base, inert tmplx.Data, outI string) {
	tokI := tmplx.Tokenize(outI, false)
	sigI := tmplx.SigOf(tokI, true)
	if _, loaded := sigs.LoadOrStore(sigI, true); !loaded {
		atomic.AddInt64(nsigs, 1)
	}
	mk := func(slot int, payload, as, clause string) c01Replay {
		return c01Replay{Program: n.Text, Slots: n.Slots, C: base.C, C2: base.C2, L: len(base.L), W: base.W != nil, Slot: slot, Payload: payload, As: as, Clause: clause}
	}
	// clause 2: the inert output has the author's structure (comments removed) and no comment tokens
	auth, aerr := tmplx.Author(n.Text, &inert)
	if aerr == nil {
		tokA := tmplx.Tokenize(auth, false)
		sigA := tmplx.SigOf(tokA, false)
		if sigA != sigI {
			discr := "other"
			for _, t := range tokA.Tokens {
				if t.Type == htmltok.Comment {
					// the author's markup contains a (possibly bogus) comment; direction matters:
					// the engine dropping author markup is harmless, anything else is not
					discr = "comment-handling:output-not-subsequence-of-author"
					if c01Subseq(c01Struct(tokI), c01Struct(tokA)) {
						discr = "comment-handling:engine-drops-author-markup"
					}
					break
				}
			}
			for _, t := range tokA.Tokens {
				if t.Type == htmltok.Doctype && discr == "other" {
					discr = "markup-inside-doctype" // the engine treats DOCTYPE contents as text (strips "comments" there)
				}
			}
			unesc := string(htmltok.Preprocess([]byte(strings.ReplaceAll(outI, "&lt;", "<"))))
			if tmplx.SigOf(tmplx.Tokenize(unesc, false), false) == sigA || unesc == string(htmltok.Preprocess([]byte(auth))) || unesc == c01StripRealComments(tokA) {
				discr = "stray-lt-escaped" // the engine's rewrite of a stray '<' to &lt; (plus comment stripping) is the whole difference
			}
			r.Witness("author-structure", discr, n.Raw, fmt.Sprintf("program %s: output %s has structure %s, the author's markup %s has %s", core.Q(n.Raw), core.Q(outI), sigI, core.Q(auth), sigA), mk(-1, "", "", "author-structure"))
		}
	}
	// clause 2b: whatever the author wrote, the output has no comment token (the engine elides comments; a "<" that
	// would open a bogus comment is rewritten)
	for _, t := range tokI.Tokens {
		if t.Type == htmltok.Comment {
			r.Witness("comment-in-output", "", n.Raw, fmt.Sprintf("program %s: output %s contains a comment token (structure %s)", core.Q(n.Raw), core.Q(outI), sigI), mk(-1, "", "", "comment-in-output"))
			break
		}
	}
	c01XNet(st, outI)
	// clause 1: data independence of the structure
	for k := 0; k < n.Slots; k++ {
		if tmplx.IsTyped(inert.Get(k)) {
			continue // typed-only context: untyped data is refused (decided by C03/C04)
		}
		kinds := []string{"string"}
		if n.Depth <= 3 {
			kinds = append([]string{"string", "stringer", "error", "ptr", "ptrptr"}, numericKinds...)
		}
		for _, pl := range c01Payloads {
			for _, as := range kinds {
				d := inert
				d.Set(k, c01Bind(pl, as))
				rd := p.Exec(&d)
				atomic.AddInt64(&st.execs, 1)
				if rd.Kind == tmplx.Panicked {
					atomic.AddInt64(&st.panics, 1)
					continue
				}
				if rd.Kind != tmplx.OK {
					continue
				}
				tokD := tmplx.Tokenize(rd.Out, false)
				if sigD := tmplx.SigOf(tokD, true); sigD != sigI {
					discr := c01DiffClass(tokI, tokD)
					if c01InDoctype(tokI, tokD) {
						discr = "data-in-doctype"
					}
					r.Witness("data-changes-structure", discr, n.Raw+"\x00"+pl, fmt.Sprintf("program %s with payload %s (%s) in slot %d: output %s has structure %s; with inert data %s has %s",
						core.Q(n.Raw), core.Q(pl), as, k, core.Q(rd.Out), sigD, core.Q(outI), sigI), mk(k, pl, as, "data-changes-structure"))
				}
			}
		}
	}
}

// c01DiffClass names the first structural difference between an expected and an actual token list.
func c01DiffClass(want, got htmltok.Result) string {
	w, g := c01Struct(want), c01Struct(got)
	i := 0
	for i < len(w) && i < len(g) && w[i] == g[i] {
		i++
	}
	a, b := "end", "end"
	if i < len(w) {
		a = c01Kind(w[i])
	}
	if i < len(g) {
		b = c01Kind(g[i])
	}
	if a == "end" && b == "end" {
		return "final-state " + c01StateFamily(want.Final) + "->" + c01StateFamily(got.Final)
	}
	return a + "->" + b
}

func c01Struct(res htmltok.Result) []string {
	var out []string
	for _, t := range res.Tokens {
		switch t.Type {
		case htmltok.StartTag:
			s := "<" + t.Name
			for _, a := range t.Attrs {
				s += " " + a.Name
			}
			out = append(out, s+">")
		case htmltok.EndTag:
			out = append(out, "</"+t.Name+">")
		case htmltok.Comment:
			out = append(out, "<!---->")
		case htmltok.Doctype:
			out = append(out, "<!DOCTYPE>")
		}
	}
	return out
}

func c01Kind(s string) string {
	switch {
	case s == "<!---->":
		return "comment"
	case s == "<!DOCTYPE>":
		return "doctype"
	case strings.HasPrefix(s, "</"):
		return "endtag"
	}
	return "starttag"
}

// c01InDoctype: the two token lists agree up to a DOCTYPE token or differ only in a DOCTYPE-family final state.
func c01InDoctype(a, b htmltok.Result) bool {
	isDT := func(s htmltok.State) bool { return s >= htmltok.DoctypeSt && s <= htmltok.BogusDoctype }
	as, bs := c01Struct(a), c01Struct(b)
	i := 0
	for i < len(as) && i < len(bs) && as[i] == bs[i] {
		i++
	}
	if i == len(as) && i == len(bs) {
		return isDT(a.Final) || isDT(b.Final)
	}
	if i < len(as) && as[i] == "<!DOCTYPE>" || i < len(bs) && bs[i] == "<!DOCTYPE>" {
		return true
	}
	return (isDT(a.Final) || isDT(b.Final)) && (i == len(as) || i == len(bs))
}

func c01Subseq(a, b []string) bool {
	j := 0
	for _, x := range a {
		for j < len(b) && b[j] != x {
			j++
		}
		if j == len(b) {
			return false
		}
		j++
	}
	return true
}

type c01Product struct {
	name  string
	parts [][]string
}

func c01ProductFamilies(thorough bool) []c01Product {
	S := tmplx.Slot
	ws1 := []string{" ", "\t", "\n", "\f", "\r", "/", "\v", "\xa0", " /", "\x00", "\xc2\x85"}
	ws := []string{"", " ", "\t", "\f", "\r", "\v", "\xa0", "/", "\x00"}
	names := []string{"title", "href"}
	if thorough {
		names = append(names, "TITLE", "data-x", "alt", "HREF", "x:y", "title\x00")
	} else {
		ws = []string{"", " ", "\f", "\r", "\v", "\xa0", "/"}
	}
	quotes := [][2]string{{"\"", "\""}, {"'", "'"}, {"", ""}, {"\"", "'"}, {"`", "`"}}
	var vals []string
	for _, q := range quotes {
		vals = append(vals, q[0]+S+q[1], q[0]+"x"+S+q[1])
	}
	tag := c01Product{"taglex", [][]string{
		{"<a", "<A", "<img", "<x-y"}, ws1, names, ws, {"=", ""}, ws, vals, {"", " ", "/", "\v"}, {">", "/>", ""},
	}}
	// end-tag recognition of raw-text / RCDATA elements: what follows the name, case, stray prefixes
	after := []string{">", " >", "\t>", "\n>", "\f>", "\r>", "/>", ".>", "\v>", "\xa0>", "x>", "\x00>", "", " ", "\r", "/", " x=\"y\">", ",>", "-x>", ":>", "_>", "1>"}
	var raws []c01Product
	rawEls := []string{"script", "style", "textarea", "title", "xmp", "iframe", "noscript"}
	if thorough {
		rawEls = append(rawEls, "noembed", "noframes")
	}
	for ei, el := range rawEls {
		up := strings.ToUpper(el)
		after := after
		if ei >= 4 && !thorough {
			after = after[:8] // the further raw-text elements share the end-tag code: fewer spellings in the quick tier
		}
		mixed := strings.ToUpper(el[:1]) + el[1:]
		raws = append(raws, c01Product{"rawend-" + el, [][]string{
			{"<" + el + ">", "<" + up + ">", "<" + el + " a=\"b\">", "<" + el + "/>", "<" + el + " a=\"b\"/>"},
			{"", "x", "<", "</", "<!--", "<!--<" + el + ">", "</" + el, "<" + el + ">", "\u023a", "\xf8", "\u0130\u023e"},
			{"</" + el, "</" + up, "</" + mixed, "< /" + el, "</ " + el, "<\\/" + el},
			after,
			{S, "<b>" + S, "-->" + S},
			{"", "</" + el + ">"},
		}})
	}
	// the end tag of a raw-text element spelled inside its own start tag: an attribute name or value for a tokenizer
	{
		var opens, ends []string
		for _, el := range rawEls {
			opens = append(opens, "<"+el)
			ends = append(ends, "</"+el+">")
		}
		for i := range opens {
			raws = append(raws, c01Product{"rawstart-" + rawEls[i], [][]string{
				{opens[i]}, {" a=", " ", " a=x", " a ", " a=\"b\"", "/"}, {ends[i], "</" + strings.ToUpper(rawEls[i]) + " >", "<!--"}, {S, "<b>" + S, " c=\"" + S + "\">"}, {"", ends[i]},
			}})
		}
	}
	// data next to static text that starts a tag inside an element whose content takes plain strings (RCDATA, and the
	// raw-text elements with an HTML content policy): the data must not complete an end tag or a comment
	for _, el := range []string{"iframe", "noscript", "textarea", "title"} {
		half := el[:len(el)/2]
		raws = append(raws, c01Product{"rawdata-" + el, [][]string{
			{"<" + el + ">"}, {"", "x", "<", "</", "</" + half, "</" + el, "<b", "<!--", "<!", "&lt;/"}, {S}, {"", ">", el[len(el)/2:] + ">", " >", el + ">", "-->", "/" + el + ">"}, {"", "y"}, {"</" + el + ">", ""},
		}})
	}
	// tag and attribute names split over text nodes by constructs that emit nothing or by a conditional
	split := []string{"", "{{$x := 1}}", "{{if $.C}}/{{end}}", "{{if $.C}} {{end}}"}
	nsNames, nsTail := []string{"", "cript", " title", " data-x"}, []string{"", "</script>"}
	if thorough {
		nsNames, nsTail = []string{"", "cript", "extarea", " title", " data-x"}, []string{"", "</script>", "</textarea>"}
		split = append(split, "{{if $.C}}x{{end}}", "{{if $.C}}{{end}}", "{{/* c */}}", "{{if $.C}}{{else}}/{{end}}", "{{if $.C}}{{else}} {{end}}", "{{with $.C}}={{end}}", "{{if $.C}}\"{{end}}")
	}
	namesplit := c01Product{"namesplit", [][]string{
		{"<a", "<s", "<t"}, split, nsNames, split, {"", "/", "x"}, {"=", ""}, {"\"" + S + "\"", "'" + S + "'", ""}, {">", " >"}, {S, ""}, nsTail,
	}}
	// loop bodies (and their else branches) that end in another context than they start in, directly or through a callee
	loops := c01Product{"loops", [][]string{
		{"<ul>", "<b title=\"", ""}, {"{{range $.L}}"},
		{"{{template \"ot\" $}}", "<b title=\"" + S, "{{template \"ot\" $}}x", "{{if $.C}}{{template \"ot\" $}}{{else}}<b title=\"" + S + "{{end}}", S + "\" id=\"", "{{template \"qi\" $}}", S + "\"><b title=\"",
			"<b {{if $.C}}{{break}}{{end}}>x</b>", S + "<b {{if $.C}}{{continue}}{{end}}>x</b>", "<b title=\"{{if $.C}}{{break}}{{end}}\">" + S + "</b>", "<script>{{if $.C}}{{continue}}{{end}}</script>" + S},
		{"{{else}}", ""}, {"<b title=\"none", "<b title=\"", ""}, {"{{end}}"}, {"\">x</b>", "x\">", ">", S + " ><i>y</i>", S},
		{"{{define \"ot\"}}<b title=\"" + S + "{{end}}{{define \"qi\"}}" + S + "\" id=\"{{end}}"},
	}}
	// a conditional between "=" and the attribute value: the branch may or may not start the value
	valuestart := c01Product{"valuestart", [][]string{
		{"<a title=", "<a title =", "<a title= "}, {"{{if $.C}}", "{{range $.L}}", "{{with $.W}}"}, {"x", "x ", "\"x\"", "'x' ", ""}, {"{{end}}", "{{else}}y{{end}}", "{{else}}{{end}}", "{{else}}\"y\"{{end}}"},
		{" class=\"" + S + "\">", " class='" + S + "'>", "class=\"" + S + "\">", ">" + S, " " + S + ">"},
	}}
	// a conditional that writes a whole attribute (name, or name and value, with or without the white space after it),
	// followed by text that is a value or another attribute depending on the branch taken
	condattr := c01Product{"condattr", [][]string{
		{"<input ", "<a\t", "<p title=\"t\" "},
		{"{{if $.C}}checked {{end}}", "{{if $.C}}checked{{end}}", "{{if $.C}} checked {{end}}", "{{if $.C}}checked {{else}} {{end}}", "{{if $.C}}a=b {{end}}", "{{if $.C}}a=\"b\" {{end}}", "{{if $.C}}a=\"b\"{{end}}", "{{if $.C}}checked ={{end}}", "{{if $.C}}{{else}}checked {{end}}"},
		{"=\"" + S + "\"", "value=\"" + S + "\"", "=" + S, " =\"" + S + "\"", "/=\"" + S + "\"", "\"" + S + "\"", "='" + S + "'", "x=\"" + S + "\""},
		{">", " >", "/>"},
	}}
	return append([]c01Product{tag, namesplit, loops, valuestart, condattr}, raws...)
}

// c01StateFamily groups tokenizer states by the construct the tokenizer is inside of.
func c01StateFamily(s htmltok.State) string {
	switch {
	case s == htmltok.Data:
		return "data"
	case s == htmltok.RCDATA || s >= htmltok.RCDATALt && s <= htmltok.RCDATAEndTagName:
		return "rcdata"
	case s == htmltok.RAWTEXT || s >= htmltok.RAWTEXTLt && s <= htmltok.RAWTEXTEndTagName:
		return "rawtext"
	case s == htmltok.ScriptData || s >= htmltok.ScriptLt && s <= htmltok.ScriptDoubleEscapeEnd:
		return "script"
	case s == htmltok.PLAINTEXT:
		return "plaintext"
	case s >= htmltok.BogusComment && s <= htmltok.CommentEndBang:
		return "comment"
	case s >= htmltok.DoctypeSt && s <= htmltok.BogusDoctype:
		return "doctype"
	case s >= htmltok.CDATASection:
		return "cdata"
	case s == htmltok.AttrValueDQ || s == htmltok.AttrValueSQ:
		return "quoted-attr-value"
	case s == htmltok.AttrValueUnq:
		return "unquoted-attr-value"
	}
	return "tag"
}

// c01StripRealComments removes the spans of "<!--" comments from the tokenized input.
func c01StripRealComments(res htmltok.Result) string {
	in := res.Input
	var b []byte
	last := 0
	for _, t := range res.Tokens {
		if t.Type == htmltok.Comment && t.Start+4 <= len(in) && string(in[t.Start:t.Start+4]) == "<!--" {
			b = append(b, in[last:t.Start]...)
			last = t.End
		}
	}
	return string(append(b, in[last:]...))
}
