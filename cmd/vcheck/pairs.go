package main

import (
	"encoding/json"
	"fmt"
	"os"
	"os/exec"
	"sort"

	"verif/internal/core"
)

// Hidden state between calls. The properties of the constructors are stated per call, so a result must not depend
// on what was called before (caches, pools, "last accepted" memos). The other layers run every input after a long,
// scheduler-dependent history; a violation that needs a specific predecessor would be found there only by accident
// and its one-input replay would not reproduce. This layer therefore runs FIRST in a check, sequentially, and
// enumerates every ordered pair (a, b) of a small item set: a is evaluated, then b is judged by the ordinary
// per-call oracle. The witness is the pair; the replay file carries a under "Before".

type pairItem struct {
	name   string
	judge  func() (clause, what string) // calls the function under test (recovering panics) and applies the oracle
	replay map[string]interface{}
}

func pairLayer(r *core.Run, items []pairItem) int64 {
	type cand struct {
		cl, input, what string
		rp              map[string]interface{}
	}
	var n int64
	var cands []cand
	for a := range items {
		for b := range items {
			items[a].judge()
			cl, what := items[b].judge()
			n++
			if cl == "" {
				continue
			}
			rp := map[string]interface{}{"Before": items[a].replay}
			for k, v := range items[b].replay {
				rp[k] = v
			}
			cands = append(cands, cand{cl, items[a].name + "\x00" + items[b].name,
				fmt.Sprintf("after a call with %s, the call with %s: %s", core.Q(items[a].name), core.Q(items[b].name), what), rp})
		}
	}
	r.Set("layer_pairs", fmt.Sprintf("every ordered pair of %d items, second call judged by the per-call oracle (hidden state between calls): %d", len(items), n))
	if len(cands) == 0 {
		return n
	}
	// The process has a history by now, so a failing pair need not fail with its predecessor alone. Per clause, report the
	// smallest pair that a fresh process reproduces (vcheck replay); failing that, the smallest pair with a note.
	sort.Slice(cands, func(i, j int) bool {
		if len(cands[i].input) != len(cands[j].input) {
			return len(cands[i].input) < len(cands[j].input)
		}
		return cands[i].input < cands[j].input
	})
	done, tried := map[string]bool{}, map[string]int{}
	for _, c := range cands {
		if done[c.cl] || tried[c.cl] >= 40 {
			continue
		}
		tried[c.cl]++
		if pairReproduces(r.ID, c.rp) {
			done[c.cl] = true
			r.Witness(c.cl, "after-call", c.input, c.what, c.rp)
		}
	}
	for _, c := range cands {
		if !done[c.cl] {
			done[c.cl] = true
			r.Witness(c.cl, "after-call", c.input, c.what+" (seen after a longer call history; a fresh process with this predecessor alone does not reproduce it)", c.rp)
		}
	}
	return n
}

// pairReproduces replays a pair in a fresh process.
func pairReproduces(id string, rp map[string]interface{}) bool {
	exe, err := os.Executable()
	if err != nil {
		return false
	}
	f, err := os.CreateTemp("", "vpair*.json")
	if err != nil {
		return false
	}
	defer os.Remove(f.Name())
	json.NewEncoder(f).Encode(map[string]interface{}{"property": id, "replay": rp})
	f.Close()
	cmd := exec.Command(exe, "replay", f.Name())
	err = cmd.Run()
	ee, ok := err.(*exec.ExitError)
	return ok && ee.ExitCode() == 1
}

// replayBefore runs the predecessor call recorded in a pair witness, if any.
func replayBefore(fn replayFn, raw json.RawMessage) {
	var in struct{ Before json.RawMessage }
	if json.Unmarshal(raw, &in) == nil && len(in.Before) > 0 && string(in.Before) != "null" {
		core.Try(func() { fn(in.Before) })
	}
}

// strPairItems builds items for a one-string function judged by judge.
func strPairItems(inputs []string, judge func(string) (string, string)) []pairItem {
	var items []pairItem
	for _, s := range inputs {
		s := s
		items = append(items, pairItem{name: s, replay: map[string]interface{}{"Input": s}, judge: func() (cl, what string) {
			if p, msg := core.Try(func() { cl, what = judge(s) }); p {
				return "panic", "panicked: " + msg
			}
			return cl, what
		}})
	}
	return items
}
