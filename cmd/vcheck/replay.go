package main

import (
	"encoding/json"
	"fmt"
	"os"
)

type replayFn func(raw json.RawMessage) (violates bool, detail string)

var replayers = map[string]replayFn{}

func replay(path string) int {
	b, err := os.ReadFile(path)
	if err != nil {
		fmt.Println(err)
		return 2
	}
	var f struct {
		Property string          `json:"property"`
		Key      string          `json:"key"`
		Replay   json.RawMessage `json:"replay"`
	}
	if err := json.Unmarshal(b, &f); err != nil {
		fmt.Println(err)
		return 2
	}
	fn, ok := replayers[f.Property]
	if !ok {
		fmt.Println("no replayer for", f.Property)
		return 2
	}
	var ret struct{ Retained bool }
	if json.Unmarshal(f.Replay, &ret) == nil && ret.Retained {
		bad, detail := retainReplay(f.Property)
		fmt.Println(detail)
		if bad {
			fmt.Printf("VIOLATION property=%s replay=%s\n", f.Property, path)
			return 1
		}
		fmt.Println("replay: property holds on this case")
		return 0
	}
	replayBefore(fn, f.Replay)
	bad, detail := fn(f.Replay)
	fmt.Println(detail)
	if bad {
		fmt.Printf("VIOLATION property=%s replay=%s\n", f.Property, path)
		return 1
	}
	fmt.Println("replay: property holds on this case")
	return 0
}
