package main

import (
	"encoding/json"
	"fmt"
	stdhtml "html"
	"strings"
	"sync/atomic"

	"github.com/google/safehtml"

	"verif/internal/core"
	"verif/internal/enum"
	"verif/internal/oracle/htmltok"
	"verif/internal/oracle/ivalid"
	"verif/internal/oracle/whaturl"
)

const innocuousURL = "about:invalid#zGoSafez"

func init() {
	register("C11", "exploration", checkC11)
	replayers["C11"] = func(raw json.RawMessage) (bool, string) {
		var in struct{ Input string }
		json.Unmarshal(raw, &in)
		cl, what := c11Judge(in.Input)
		return cl != "", fmt.Sprintf("URLSanitized(%q) = %q; %s %s", in.Input, safehtml.URLSanitized(in.Input).String(), cl, what)
	}
}

// c11MustPass is the byte-level recogniser for the two "returned unchanged" shapes.
func c11MustPass(s string) bool {
	// shape 1: [A-Za-z0-9+.-]+ ':' and the scheme is not javascript (any case)
	i := 0
	for i < len(s) {
		c := s[i]
		if c|0x20 >= 'a' && c|0x20 <= 'z' || c >= '0' && c <= '9' || c == '+' || c == '.' || c == '-' {
			i++
			continue
		}
		break
	}
	if i > 0 && i < len(s) && s[i] == ':' {
		return !strings.EqualFold(s[:i], "javascript")
	}
	// shape 2: ':' and '&' occur only after the first '/', '?' or '#'
	for j := 0; j < len(s); j++ {
		switch s[j] {
		case '/', '?', '#':
			return true
		case ':', '&':
			return false
		}
	}
	return true
}

func c11Judge(s string) (string, string) {
	out := safehtml.URLSanitized(s).String()
	if out != s && out != innocuousURL {
		return "range", fmt.Sprintf("result %q is neither the input nor the innocuous URL", out)
	}
	if out == s {
		if whaturl.IsJavascript(s) {
			return "javascript", "returned unchanged but a WHATWG parser finds the javascript scheme"
		}
		for _, d := range []string{stdhtml.UnescapeString(s), htmltok.DecodeRefs(s, true), htmltok.DecodeRefs(s, false)} {
			if whaturl.IsJavascript(d) {
				return "javascript-after-decoding", fmt.Sprintf("returned unchanged; after character-reference decoding (%q) a WHATWG parser finds the javascript scheme", d)
			}
		}
	} else if c11MustPass(s) {
		return "converse", "input has a non-javascript ASCII scheme, or ':'/'&' only after the first '/', '?', '#', yet it was replaced"
	}
	return "", ""
}

func checkC11(r *core.Run) {
	var evals, nontriv int64
	eval := func(s string) {
		atomic.AddInt64(&evals, 1)
		if p, msg := core.Try(func() { safehtml.URLSanitized(s) }); p {
			r.Witness("panic", "", s, fmt.Sprintf("URLSanitized(%s) panicked: %s", core.Q(s), msg), map[string]string{"Input": s})
			return
		}
		if strings.ContainsAny(s, ":&") {
			atomic.AddInt64(&nontriv, 1)
		}
		if cl, what := c11Judge(s); cl != "" {
			r.Witness(cl, "", s, fmt.Sprintf("URLSanitized(%s)=%s: %s", core.Q(s), core.Q(safehtml.URLSanitized(s).String()), what), map[string]string{"Input": s})
		}
	}
	// hidden state between calls (runs first, sequentially)
	pairLayer(r, strPairItems([]string{"", "a", "/", "/a", "//a", "?a", "#a", "a/b:c", "a?b:c", "a:b", "http:", "http://a", "https://a/b", "HTTP://A", "mailto:x", "ftp://x", "tel:1", "data:text/html,x",
		"javascript:x", "JAVASCRIPT:x", "JavaScript:alert(1)", "\x00javascript:x", " javascript:x", "java\tscript:x", "javascript\n:x", "javascript&#58;x", "javascript&colon;x", "&#106;avascript:x",
		"javascript", "javascript/", "javascript/:x", "/javascript:x", "http://javascript:x", "j", "javascript:", "x-javascript:y", "javascript-x:y", "a&b", "a/&b", "&", ":", "\xff:", "\u0130:",
		strings.Repeat("a", 100) + ":x", strings.Repeat("/", 70) + "javascript:x", "javascript:" + strings.Repeat("x", 200)}, c11Judge))
	const js = "javascript:"
	foldings := make([]string, 0, 1024)
	for m := 0; m < 1024; m++ {
		b := []byte(js)
		for i := 0; i < 10; i++ {
			if m>>i&1 == 1 {
				b[i] -= 0x20
			}
		}
		foldings = append(foldings, string(b))
	}
	suffixes := []string{"", "alert(1)", "//x"}
	// (i-a) every case folding x every byte inserted at each of the 12 positions x suffixes
	var n1 int64
	core.ParallelFor(len(foldings), func(fi int) {
		f := foldings[fi]
		for pos := 0; pos <= len(f); pos++ {
			for b := 0; b < 256; b++ {
				for _, suf := range suffixes {
					eval(f[:pos] + string([]byte{byte(b)}) + f[pos:] + suf)
					atomic.AddInt64(&n1, 1)
				}
			}
		}
	})
	r.Set("layer_foldings_x_byte", n1)
	// (i-b) every code point at every position (2 foldings; thorough: 8)
	fset := []string{"javascript:", "JAVASCRIPT:"}
	if r.Thorough() {
		fset = append(fset, "JavaScript:", "jAVASCRIPT:", "javascripT:", "javaScript:", "JAVAsCRIPT:", "jaVascrIpt:")
	}
	var n2 int64
	core.ParallelFor(0x110, func(blk int) {
		for v := rune(blk) << 12; v < rune(blk+1)<<12; v++ {
			if v >= 0xD800 && v <= 0xDFFF {
				continue
			}
			enc := ivalid.Encode([]rune{v})
			for _, f := range fset {
				for pos := 0; pos <= len(f); pos++ {
					eval(f[:pos] + enc + f[pos:] + "a")
					atomic.AddInt64(&n2, 1)
				}
			}
		}
	})
	r.Set("layer_codepoint_insertions", n2)
	// (i-c) pairs of class bytes at two positions
	classBytes := []string{"\x00", "\x01", "\t", "\n", "\x0b", "\x0c", "\r", "\x1f", " ", "!", "#", "%", "&", "+", "-", ".", "/", "0", ":", ";", "?", "@", "A", "\\", "a", "j", "\x7f", "\x80", "\xa0", "\xc2\x85", "\xe2\x80\xa8", "\xe2\x84\xaa", "\xc5\xbf", "\xc4\xb0", "&#58;", "&colon;", "&Tab;", "&NewLine;", "&#x3a", "&#0;"}
	f4 := []string{"javascript:", "JAVASCRIPT:", "JavaScript:", "jAvAsCrIpT:"}
	var n3 int64
	core.ParallelFor(len(classBytes), func(ai int) {
		a := classBytes[ai]
		for _, b := range classBytes {
			for _, f := range f4 {
				for p := 0; p <= len(f); p++ {
					for q := p; q <= len(f); q++ {
						eval(f[:p] + a + f[p:q] + b + f[q:] + "x")
						atomic.AddInt64(&n3, 1)
					}
				}
			}
		}
	})
	r.Set("layer_class_pairs", n3)
	// (ii) one or two characters of "javascript:" written as character references
	refForms := func(c byte) []string {
		out := []string{
			fmt.Sprintf("&#%d;", c), fmt.Sprintf("&#%d", c), fmt.Sprintf("&#x%x;", c), fmt.Sprintf("&#X%X;", c), fmt.Sprintf("&#x%x", c),
			fmt.Sprintf("&#0%d;", c), fmt.Sprintf("&#x00%x;", c), fmt.Sprintf("&#%d;", int(c)-0x20),
		}
		if c == ':' {
			out = append(out, "&colon;", "&colon")
		}
		return out
	}
	var n4 int64
	core.ParallelFor(len(js), func(p int) {
		for _, f := range f4 {
			for _, ra := range refForms(f[p]) {
				s1 := f[:p] + ra + f[p+1:]
				eval(s1 + "x")
				eval(" " + s1)
				eval(s1[:1] + "\t" + s1[1:])
				atomic.AddInt64(&n4, 3)
				for q := p + 1; q < len(js); q++ {
					for _, rb := range refForms(f[q]) {
						eval(f[:p] + ra + f[p+1:q] + rb + f[q+1:] + "x")
						atomic.AddInt64(&n4, 1)
					}
				}
			}
		}
	})
	r.Set("layer_reference_spellings", n4)
	// (iii) free class alphabet (also decides the converse clause)
	alpha := []string{"a", "j", ":", "/", "?", "#", "&", ";", "%", ".", "+", "-", "1", "\t", "\n", "\r", " ", "\x00", "\xe2\x84\xaa", "\xc4\xb0", "javascript", "JavaScript", "&colon;", "&#58", "&Tab;"}
	ln := 5
	if r.Thorough() {
		ln = 6
	}
	st := enum.Seqs(alpha, ln, func(s string, _ []int) { eval(s) })
	r.Set("layer_class_strings", fmt.Sprintf("%d symbols, length<=%d: %d", len(alpha), ln, st.States))
	// (iv) all byte strings
	bl := 2
	if r.Thorough() {
		bl = 3
	}
	st2 := enum.Seqs(enum.Bytes256(), bl, func(s string, _ []int) {
		eval(s)
		eval(s + "javascript:x")
		eval("javascript" + s + ":x")
		eval("j" + s + "avascript:")
	})
	atomic.AddInt64(&evals, 0)
	r.Set("layer_bytes", fmt.Sprintf("all byte strings length<=%d alone and in 3 javascript contexts: %d", bl, st2.States*4))

	nl := enum.Long([]string{"a", "x", "\u00e9", "\u212a", "\u0130", "\xff", "%6a", "."}, []string{"javascript:alert(1)", ":x", "&colon;x", "&#58;x", "JAVASCRIPT:", "/ok", "?a:b", "script:x", "\tjavascript:x", "a:b"}, 300, func(s string) { eval(s) })
	// stripped characters (leading C0/space, TAB/LF/CR anywhere) in every quantity, before, inside and after the scheme
	for _, ws := range []string{" ", "\t", "\n", "\r", "\x00", "\x1f", "\r\n"} {
		pad := ""
		for k := 0; k <= 300; k++ {
			for _, tail := range []string{":alert(1)", "&colon;alert(1)", "&#58;x", "&#x3A;x"} {
				eval(pad + "javascript" + tail)
				eval("java" + pad + "script" + tail)
				eval("javascript" + pad + tail)
				eval(pad + "JaVaScRiPt" + tail + pad)
				nl += 4
			}
			pad += ws
		}
	}
	r.Set("layer_long", fmt.Sprintf("8 padding units x 10 cores x every padding length 0..300 x 3 placements, plus 7 stripped characters in every quantity 0..300 at 3 places of javascript: in 4 spellings: %d", nl))
	// scheme names: every registered or historical scheme name a special case could be written for, its neighbours
	// (one character dropped, doubled or appended; every prefix), in three spellings, before four tails
	var nd int64
	for _, name := range c11SchemeNames {
		forms := map[string]bool{name: true, name + "x": true, "x" + name: true, name + "-x": true, "x-" + name: true, name + "s": true}
		for i := 0; i < len(name); i++ {
			forms[name[:i]] = true
			forms[name[:i]+name[i+1:]] = true
			forms[name[:i+1]+name[i:]] = true
		}
		for f := range forms {
			if f == "" {
				continue
			}
			for _, sp := range []string{f, strings.ToUpper(f), strings.ToUpper(f[:1]) + f[1:]} {
				for _, tail := range []string{":x", "://h/p?q#f", ":alert(1)", ":"} {
					eval(sp + tail)
					nd++
				}
			}
		}
	}
	r.Set("layer_scheme_names", fmt.Sprintf("%d scheme names, their prefixes and one-edit neighbours x 3 spellings x 4 tails: %d", len(c11SchemeNames), nd))
	r.Set("evaluations", evals)
	r.Set("distinct_nontrivial", nontriv)
	r.Set("rule", "exhaustive enumeration per layer (layer_* keys); non-trivial = the input contains ':' or '&', i.e. the accept/reject decision depends on scheme analysis rather than on the trivial no-special-character path")
	r.Sample(map[string]string{"input": "java\tscript:alert(1)", "output": safehtml.URLSanitized("java\tscript:alert(1)").String()})
	r.Sample(map[string]string{"input": "javascript&colon;x", "output": safehtml.URLSanitized("javascript&colon;x").String()})
	r.Sample(map[string]string{"input": "JaVaScRiPt\x00:x", "output": safehtml.URLSanitized("JaVaScRiPt\x00:x").String()})
	r.Assume("oracle O2 (WHATWG scheme extraction, validated on WPT urltestdata.json) and O1 character-reference decoding are correct")
}

// c11SchemeNames: URI schemes (IANA permanent, provisional and historical registrations that browsers or their
// extensions have handled), with every script-like one.
var c11SchemeNames = []string{"javascript", "vbscript", "livescript", "jscript", "mocha", "ecmascript", "script", "vbs", "js", "data", "blob", "filesystem", "file",
	"ftp", "ftps", "sftp", "gopher", "http", "https", "ws", "wss", "mailto", "tel", "sms", "smsto", "mms", "fax", "callto", "sip", "sips", "skype", "facetime", "geo", "maps", "market", "intent",
	"android-app", "ios-app", "about", "chrome", "chrome-extension", "moz-extension", "ms-appx", "ms-help", "res", "resource", "view-source", "wyciwyg", "feed", "jar", "cid", "mid", "urn", "tag",
	"news", "nntp", "irc", "ircs", "xmpp", "magnet", "bitcoin", "git", "ssh", "telnet", "ldap", "rtsp", "webcal", "steam", "slack", "zoommtg", "x-javascript", "java", "applescript", "mhtml", "mk", "its", "vnd.ms-excel", "web+foo"}

func c11JS(u string) bool {
	if whaturl.IsJavascript(u) {
		return true
	}
	for _, d := range []string{stdhtml.UnescapeString(u), htmltok.DecodeRefs(u, true)} {
		if whaturl.IsJavascript(d) {
			return true
		}
	}
	return false
}
