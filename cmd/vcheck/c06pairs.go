package main

import (
	"bytes"
	"encoding/json"
	"fmt"
	"strings"
	"sync/atomic"

	"github.com/google/safehtml/template"
	tuc "github.com/google/safehtml/template/uncheckedconversions"

	"verif/internal/core"
)

// Call-site pairs. A helper template is analysed once per class of calling context and the result is memoised, so
// whatever of the call site influences the analysis has to be part of that class. This layer enumerates the product
// (call site A) x (call site B) x (helper body): on one set, A is executed first and then B; B's bytes and
// error-ness must equal those of B executed first on a freshly built set with the same definitions. The scenarios of
// the history explorer do the same for hand-picked definitions to a greater depth; here the definitions are the
// enumerated object.

var c06CallSites = []string{
	`@`, `<p>@</p>`, `<p title="@">x</p>`, `<p title='@'>x</p>`, `<p title="a @">x</p>`,
	`<a href="@">x</a>`, `<a href="/p/@">x</a>`, `<a href="/p?q=@">x</a>`, `<a href="/p?a=1&amp;b=@">x</a>`, `<a href="ja@">x</a>`, `<a href="https://h/@">x</a>`, `<a href="/p#@">x</a>`,
	`<img src="@">`, `<script src="@"></script>`, `<script src="/s/@"></script>`, `<form action="@"></form>`,
	`<link rel="icon" href="@">`, `<link rel="stylesheet" href="@">`, `<link rel="stylesheet@>`, `<link rel="icon@>`, `<link rel="@" href="/x">`,
	`<a data-x@>k</a>`, `<a data-x{{if .L}} {{end}}@>k</a>`, `<a @>k</a>`, `<a title{{if .L}}{{end}}x="@">k</a>`, `<a title=@>k</a>`,
	`<textarea>@</textarea>`, `<title>@</title>`, `<script>@</script>`, `<script type="text/a">@</script>`, `<style>@</style>`, `<!--@-->`,
	`<svg>@</svg>`, `<p dir="@">x</p>`, `<p id="@">x</p>`, `<img srcset="@">`, `<img srcset="/a 1x, @">`, `<p style="@">x</p>`,
	// static text too long for the name of a derived template to spell out
	`<link rel="alternate author bookmark canonical cite help icon license next prev search tag@>`, `<link rel="stylesheet alternate author bookmark canonical cite help icon license next prev@>`,
	`<script src="https://aaaaaaaaaaaaaaaaaaaaaaaaaaaaaaaaaaaaaaaaaaaaaaaaaaaaaaaaaaaaaaaaaaaaaaaa@"></script>`, `<script src="http://aaaaaaaaaaaaaaaaaaaaaaaaaaaaaaaaaaaaaaaaaaaaaaaaaaaaaaaaaaaaaaaaaaaaaaaaa@"></script>`,
	`<a href="jjjjjjjjjjjjjjjjjjjjjjjjjjjjjjjjjjjjjjjjjjjjjjjjjjjjjjjjjjjjjjjjjjjjjjjj@">x</a>`,
	`{{if .L}}<script{{else}}<img{{end}} src="@">`, `<a title="{{if .L}}x{{end}}@">k</a>`, `<a href="{{if .L}}/p?{{end}}@">k</a>`,
}

var c06HelperBodies = []string{
	`{{.S}}`, `x{{.S}}`, `{{.S}}x`, `x`, ``, `?q={{.S}}`, `?q=`, `" href="{{.S}}"`, `" href="ja`, `" href="/a?`, `" title="{{.S}}`, `y="1" title="{{.S}}"`, ` title="{{.S}}"`, `="{{.S}}"`,
	`.example/{{.S}}`, `/{{.S}}`,
	`{{.S}}{{.S}}`, `{{if .L}}{{.S}}{{end}}`, `:{{.S}}`, `javascript:{{.S}}`, `.{{.S}}`, `&{{.S}}`, `%{{.S}}`, `{{template "G" .}}`, `{{.S | html}}`, `</script>{{.S}}`, `'{{.S}}`, `>{{.S}}`,
}

type c06PairReplay struct {
	Pair   bool
	Defs   string
	Data   int
	Second string // "B" executed after "A" on one set, and first on a fresh set
}

var c06PairData = []interface{}{
	map[string]interface{}{"S": "<x>&\"'", "L": []string{"a"}},
	map[string]interface{}{"S": "javascript:alert(1)", "L": []string{}},
}

func c06PairDefs(a, b, body string) string {
	call := `{{template "H" .}}`
	return `{{define "G"}}{{.S}}{{end}}{{define "H"}}` + body + `{{end}}{{define "A"}}` + replaceAt(a, call) + `{{end}}{{define "B"}}` + replaceAt(b, call) + `{{end}}`
}

func replaceAt(site, call string) string {
	return string(bytes.ReplaceAll([]byte(site), []byte("@"), []byte(call)))
}

// c06PairRun returns (after A, fresh) observations of executing B, or ok=false if the definitions do not parse.
func c06PairRun(defs string, data int) (after, fresh string, ok bool) {
	mk := func() *template.Template {
		t, err := template.New("root").ParseFromTrustedTemplate(tuc.TrustedTemplateFromStringKnownToSatisfyTypeContract(defs))
		if err != nil {
			return nil
		}
		return t
	}
	exec := func(t *template.Template, name string) string {
		var b bytes.Buffer
		var err error
		if p, msg := core.Try(func() { err = t.ExecuteTemplate(&b, name, c06PairData[data]) }); p {
			return "panic: " + msg
		}
		if err != nil {
			return "error after " + fmt.Sprintf("%q", b.String())
		}
		return "ok " + fmt.Sprintf("%q", b.String())
	}
	t1, t2 := mk(), mk()
	if t1 == nil || t2 == nil {
		return "", "", false
	}
	exec(t1, "A")
	return exec(t1, "B"), exec(t2, "B"), true
}

func c06CallSitePairs(r *core.Run) {
	type job struct{ a, b int }
	var jobs []job
	for a := range c06CallSites {
		for b := range c06CallSites {
			if a != b {
				jobs = append(jobs, job{a, b})
			}
		}
	}
	var sets, differing int64
	core.ParallelFor(len(jobs), func(i int) {
		j := jobs[i]
		for _, body := range c06HelperBodies {
			defs := c06PairDefs(c06CallSites[j.a], c06CallSites[j.b], body)
			for d := range c06PairData {
				after, fresh, ok := c06PairRun(defs, d)
				if !ok {
					continue
				}
				atomic.AddInt64(&sets, 1)
				if after != fresh {
					atomic.AddInt64(&differing, 1)
					kind := "different-output"
					switch {
					case strings.HasPrefix(after, "ok") && !strings.HasPrefix(fresh, "ok"):
						kind = "output-instead-of-error"
					case !strings.HasPrefix(after, "ok") && strings.HasPrefix(fresh, "ok"):
						kind = "error-instead-of-output"
					case !strings.HasPrefix(after, "ok"):
						kind = "different-partial-output"
					}
					r.Witness("history-dependent", "call-site-pair "+kind, defs+"\x00"+fmt.Sprint(d),
						fmt.Sprintf("definitions %s, data d%d: ExecuteTemplate(\"B\") after ExecuteTemplate(\"A\") gives %s, on a freshly built set it gives %s", core.Q(defs), d, after, fresh),
						c06PairReplay{Pair: true, Defs: defs, Data: d, Second: "B"})
				}
			}
		}
	})
	r.Set("layer_call_site_pairs", fmt.Sprintf("%d call sites x %d other call sites x %d helper bodies x %d data values: %d sets whose definitions parse, second caller compared with a fresh set", len(c06CallSites), len(c06CallSites)-1, len(c06HelperBodies), len(c06PairData), sets))
	r.Add("states", sets)
	r.Add("transitions", 3*sets)
}

func c06PairReplayFn(raw json.RawMessage) (bool, string, bool) {
	var in c06PairReplay
	if json.Unmarshal(raw, &in) != nil || !in.Pair {
		return false, "", false
	}
	after, fresh, ok := c06PairRun(in.Defs, in.Data)
	if !ok {
		return false, "definitions do not parse", true
	}
	return after != fresh, fmt.Sprintf("definitions %q, data d%d: B after A gives %s, B on a fresh set gives %s", in.Defs, in.Data, after, fresh), true
}
