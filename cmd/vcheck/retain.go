package main

import (
	"fmt"
	"runtime"
	"strings"

	"github.com/google/safehtml"
	"github.com/google/safehtml/template"
	tuc "github.com/google/safehtml/template/uncheckedconversions"

	"verif/internal/core"
)

// Retained results. The constructors return immutable values: what a caller holds must not change when the
// library is called again (a pooled buffer handed out as a string, a shared scratch slice). The per-call oracles
// look at a result once, directly after the call, and cannot see that. This layer performs every call of a small
// set twice, in two orders, keeps every result together with a byte copy taken at return time, and compares all of
// them after the last call (and once more after a garbage collection, which empties sync.Pools).

type retainCall struct {
	name string
	f    func() string
}

func retainRun(calls []retainCall) (changed []string, n int) {
	type held struct {
		name      string
		got, copy string
	}
	var hs []held
	do := func(c retainCall) {
		var s string
		if p, _ := core.Try(func() { s = c.f() }); p {
			return
		}
		hs = append(hs, held{c.name, s, strings.Clone(s)})
		n++
	}
	for i := range calls {
		do(calls[i])
	}
	for i := len(calls) - 1; i >= 0; i-- {
		do(calls[i])
	}
	check := func(when string) {
		for _, h := range hs {
			if h.got != h.copy {
				changed = append(changed, fmt.Sprintf("%s returned %s; %s the value the caller holds reads %s", h.name, core.Q(h.copy), when, core.Q(h.got)))
			}
		}
	}
	check("after later calls")
	if len(changed) == 0 {
		runtime.GC()
		for i := range calls {
			do(calls[i])
		}
		check("after a garbage collection and later calls")
	}
	return changed, n
}

func retainLayer(r *core.Run) {
	mk, ok := retainSets[r.ID]
	if !ok {
		return
	}
	changed, n := retainRun(mk())
	r.Set("layer_retained", fmt.Sprintf("%d results held across all later calls of the set (two orders, then again after a GC) and compared with a copy taken at return time", n))
	if len(changed) > 0 {
		r.Witness("retained-result-changed", "", changed[0], changed[0], map[string]interface{}{"Retained": true})
	}
}

func retainReplay(id string) (bool, string) {
	mk, ok := retainSets[id]
	if !ok {
		return false, "no retained-result layer for " + id
	}
	changed, _ := retainRun(mk())
	if len(changed) > 0 {
		return true, changed[0]
	}
	return false, "all retained results unchanged"
}

var retainStrings = []string{"", "a", "<b>&\"'", strings.Repeat("x<", 40), "&lt;script&gt;alert(1)", strings.Repeat("é\x00", 33), "Hello, <world> & co", strings.Repeat("y", 70), "\xff<", "z"}

var retainSets = map[string]func() []retainCall{
	"C10": func() []retainCall {
		var cs []retainCall
		var hs []safehtml.HTML
		for _, s := range retainStrings {
			s := s
			cs = append(cs, retainCall{"HTMLEscaped(" + core.Q(s) + ")", func() string { return safehtml.HTMLEscaped(s).String() }})
			hs = append(hs, safehtml.HTMLEscaped(s))
		}
		for i := range hs {
			for j := range hs {
				i, j := i, j
				cs = append(cs, retainCall{fmt.Sprintf("HTMLConcat(HTMLEscaped(%s), HTMLEscaped(%s))", core.Q(retainStrings[i]), core.Q(retainStrings[j])), func() string { return safehtml.HTMLConcat(hs[i], hs[j]).String() }})
			}
		}
		cs = append(cs, retainCall{"HTMLConcat(all)", func() string { return safehtml.HTMLConcat(hs...).String() }})
		return cs
	},
	"C11": func() []retainCall {
		var cs []retainCall
		for _, s := range []string{"", "a", "http://a/b?c#d", "javascript:alert(1)", "/p/" + strings.Repeat("q", 80), "mailto:x@y", "a&b:c", strings.Repeat("h", 40) + "://x", "JAVASCRIPT:x", "//h/p"} {
			s := s
			cs = append(cs, retainCall{"URLSanitized(" + core.Q(s) + ")", func() string { return safehtml.URLSanitized(s).String() }})
		}
		return cs
	},
	"C12": func() []retainCall {
		var cs []retainCall
		for _, s := range []string{"", "a", "a 1x, b 2x", "javascript:x 1x, /ok 2w", "/a.png 1x,/b.png 2x,/c.png 3x", strings.Repeat("/img/x.png 1x, ", 12) + "/y 2x", "a b c", ",", "http://h/p?q 100w , //x 2x", "x 1.5x"} {
			s := s
			cs = append(cs, retainCall{"URLSetSanitized(" + core.Q(s) + ")", func() string { return safehtml.URLSetSanitized(s).String() }})
		}
		return cs
	},
	"C13": func() []retainCall {
		var cs []retainCall
		base := safehtml.TrustedResourceURLFromConstant("https://x.com/a/")
		for _, s := range []string{"", "a", "b/c?d#e", strings.Repeat("seg/", 30), "é", "x y", "%2e", "k=v&l=w"} {
			s := s
			cs = append(cs, retainCall{"TrustedResourceURLAppend(base, " + core.Q(s) + ")", func() string {
				t, _ := safehtml.TrustedResourceURLAppend(base, s)
				return t.String()
			}})
			cs = append(cs, retainCall{"TrustedResourceURLFormatFromFlag(\"//x.com/p/%{x}/%{y}\", x=" + core.Q(s) + ")", func() string {
				t, _ := safehtml.TrustedResourceURLFormatFromFlag(flagVal("//x.com/p/%{x}/%{y}"), map[string]string{"x": s, "y": "k"})
				return t.String()
			}})
			cs = append(cs, retainCall{"TrustedResourceURLWithParams(base, k=" + core.Q(s) + ")", func() string {
				return safehtml.TrustedResourceURLWithParams(base, map[string]string{"k": s, "l": "1"}).String()
			}})
		}
		return cs
	},
	"C15": func() []retainCall {
		var cs []retainCall
		for i, p := range []safehtml.StyleProperties{
			{}, {Width: "1px"}, {Color: "red", Left: "2px"}, {FontFamily: []string{"Times New Roman", "serif", "a\"b"}}, {BackgroundImageURLs: []string{"http://a/b.png", "/c.png"}},
			{Width: "expression(1)", Height: "3em"}, {FontFamily: []string{strings.Repeat("f", 70)}, Display: "block"}, {BackgroundColor: "#fff", Padding: "1px 2px"}, {BackgroundImageURLs: []string{"javascript:x"}}, {Top: "0"},
		} {
			p := p
			cs = append(cs, retainCall{fmt.Sprintf("StyleFromProperties(#%d %+v)", i, p), func() string { return safehtml.StyleFromProperties(p).String() }})
		}
		return cs
	},
	"C16": func() []retainCall {
		var cs []retainCall
		st := safehtml.StyleFromProperties(safehtml.StyleProperties{Width: "1px", Color: "red"})
		for _, s := range []string{"a", "div > p", "[a=\"b\"]", "a:not(.b)", "#id.cls", strings.Repeat("a, ", 30) + "b", "a{", "x\"", "p::before", "*"} {
			s := s
			cs = append(cs, retainCall{"CSSRule(" + core.Q(s) + ", style)", func() string {
				t, _ := safehtml.CSSRule(s, st)
				return t.String()
			}})
		}
		return cs
	},
	"C17": func() []retainCall {
		var cs []retainCall
		datas := []interface{}{1, "a<b", []string{"x", "</script>"}, map[string]int{"k": 1}, strings.Repeat("d", 80), 1.5, nil, true, []int{1, 2, 3}, " "}
		for si := range scriptNameSites {
			if scriptNameSites[si].name != "ab" && scriptNameSites[si].name != "$_" {
				continue
			}
			for di, d := range datas {
				si, d := si, d
				cs = append(cs, retainCall{fmt.Sprintf("ScriptFromDataAndConstant(%s, data#%d, %s)", core.Q(scriptNameSites[si].name), di, core.Q(scriptNameSites[si].script)), func() string {
					t, _ := scriptNameSites[si].f(d)
					return t.String()
				}})
			}
		}
		return cs
	},
	"C18": func() []retainCall {
		var cs []retainCall
		for si := range identPrefixSites {
			for _, v := range []string{"a", "b-1", strings.Repeat("v", 70), "x_y", "0"} {
				si, v := si, v
				cs = append(cs, retainCall{"IdentifierFromConstantPrefix(" + core.Q(identPrefixSites[si].prefix) + ", " + core.Q(v) + ")", func() string { return identPrefixSites[si].f(v).String() }})
			}
		}
		return cs
	},
	"C06": func() []retainCall {
		// HTML values returned by ExecuteToHTML / ExecuteTemplateToHTML, held across later executions of the same set
		var cs []retainCall
		t, err := template.New("root").ParseFromTrustedTemplate(tuc.TrustedTemplateFromStringKnownToSatisfyTypeContract(
			`{{define "a"}}<p title="{{.}}">{{.}}</p>{{end}}{{define "b"}}<a href="/x?q={{.}}">{{.}}</a>{{end}}{{define "c"}}{{range .}}<i>{{.}}</i>{{end}}{{end}}<b>{{.}}</b>`))
		if err != nil {
			return nil
		}
		datas := []interface{}{"x", "<&\"'>", strings.Repeat("long ", 30), 42, safehtml.HTMLEscaped("<i>"), "", "z"}
		for _, name := range []string{"root", "a", "b"} {
			for di, d := range datas {
				name, d := name, d
				cs = append(cs, retainCall{fmt.Sprintf("ExecuteTemplateToHTML(%q, data#%d)", name, di), func() string {
					h, _ := t.ExecuteTemplateToHTML(name, d)
					return h.String()
				}})
			}
		}
		for di, d := range [][]string{{"a"}, {"b", "<c>"}, {}, {strings.Repeat("w", 90)}} {
			d := d
			cs = append(cs, retainCall{fmt.Sprintf("ExecuteTemplateToHTML(\"c\", list#%d)", di), func() string {
				h, _ := t.ExecuteTemplateToHTML("c", d)
				return h.String()
			}})
		}
		cs = append(cs, retainCall{"MustParseAndExecuteToHTML(constant)", func() string { return template.MustParseAndExecuteToHTML("<hr>").String() }})
		return cs
	},
	"C20": func() []retainCall {
		var cs []retainCall
		for si := range tsDirSites {
			for _, src := range []string{"", "s", "a/b", strings.Repeat("d/", 40)} {
				for _, fn := range []string{"f.html", "x", strings.Repeat("n", 70)} {
					si, src, fn := si, src, fn
					cs = append(cs, retainCall{"TrustedSourceFromConstantDir(" + core.Q(tsDirSites[si].dir) + ", " + core.Q(src) + ", " + core.Q(fn) + ")", func() string {
						t, _ := tsDirSites[si].f(tuc.TrustedSourceFromStringKnownToSatisfyTypeContract(src), fn)
						return t.String()
					}})
				}
			}
		}
		a, b := template.TrustedSourceFromConstant("a/b"), template.TrustedSourceFromConstant("c")
		cs = append(cs, retainCall{"TrustedSourceJoin(a/b, c)", func() string { return template.TrustedSourceJoin(a, b).String() }})
		return cs
	},
}
