package main

import (
	"encoding/json"
	"fmt"
	"sync/atomic"

	"github.com/google/safehtml"

	"verif/internal/core"
	"verif/internal/enum"
	"verif/internal/oracle/ivalid"
)

func init() {
	register("C18", "exploration", checkC18)
	replayers["C18"] = func(raw json.RawMessage) (bool, string) {
		var in struct {
			Kind, Const, Value string
		}
		json.Unmarshal(raw, &in)
		if in.Kind == "const" {
			for _, s := range identConstSites {
				if s.arg == in.Const {
					res, p := c18Call(func() safehtml.Identifier { return s.f() })
					cl, what := c18Judge(res, p, in.Const)
					return cl != "", fmt.Sprintf("IdentifierFromConstant(%q): result=%q panic=%v %s %s", in.Const, res, p, cl, what)
				}
			}
		}
		for _, s := range identPrefixSites {
			if s.prefix == in.Const {
				res, p := c18Call(func() safehtml.Identifier { return s.f(in.Value) })
				cl, what := c18Judge(res, p, in.Const+"-"+in.Value)
				return cl != "", fmt.Sprintf("IdentifierFromConstantPrefix(%q,%q): result=%q panic=%v %s %s", in.Const, in.Value, res, p, cl, what)
			}
		}
		return false, "call site not found"
	}
}

// c18Match is the byte-level recogniser for [A-Za-z][-_A-Za-z0-9]*.
func c18Match(s string) bool {
	if len(s) == 0 || !(s[0]|0x20 >= 'a' && s[0]|0x20 <= 'z') {
		return false
	}
	for i := 1; i < len(s); i++ {
		c := s[i]
		if !(c|0x20 >= 'a' && c|0x20 <= 'z' || c >= '0' && c <= '9' || c == '-' || c == '_') {
			return false
		}
	}
	return true
}

func c18Call(f func() safehtml.Identifier) (res string, panicked bool) {
	defer func() {
		if recover() != nil {
			panicked = true
		}
	}()
	return f().String(), false
}

func c18Judge(res string, panicked bool, want string) (string, string) {
	if panicked {
		return "", ""
	}
	if !c18Match(res) {
		return "pattern", fmt.Sprintf("returned %q which does not match [A-Za-z][-_A-Za-z0-9]*", res)
	}
	if res != want {
		return "composition", fmt.Sprintf("returned %q, expected exactly %q", res, want)
	}
	return "", ""
}

func checkC18(r *core.Run) {
	var evals, accepted, rejected int64
	doPrefix := func(si int, v string) {
		s := identPrefixSites[si]
		atomic.AddInt64(&evals, 1)
		res, p := c18Call(func() safehtml.Identifier { return s.f(v) })
		if p {
			atomic.AddInt64(&rejected, 1)
		} else {
			atomic.AddInt64(&accepted, 1)
		}
		if cl, what := c18Judge(res, p, s.prefix+"-"+v); cl != "" {
			r.Witness(cl, "prefix", s.prefix+"\x00"+v, fmt.Sprintf("IdentifierFromConstantPrefix(%s, %s): %s", core.Q(s.prefix), core.Q(v), what),
				map[string]string{"Kind": "prefix", "Const": s.prefix, "Value": v})
		}
	}
	// hidden state between calls (runs first, sequentially): every prefix site x a few values, all ordered pairs
	var items []pairItem
	for si := range identPrefixSites {
		s := identPrefixSites[si]
		for _, v := range []string{"b", "", "1", "+1", "b\n", " ", "b-1_", "\u00e9"} {
			v := v
			items = append(items, pairItem{name: s.prefix + "\x00" + v, replay: map[string]interface{}{"Kind": "prefix", "Const": s.prefix, "Value": v},
				judge: func() (string, string) {
					res, p := c18Call(func() safehtml.Identifier { return s.f(v) })
					return c18Judge(res, p, s.prefix+"-"+v)
				}})
		}
	}
	pairLayer(r, items)
	// constant constructor: every generated constant call site
	for _, s := range identConstSites {
		s := s
		atomic.AddInt64(&evals, 1)
		res, p := c18Call(func() safehtml.Identifier { return s.f() })
		if p {
			rejected++
		} else {
			accepted++
		}
		if cl, what := c18Judge(res, p, s.arg); cl != "" {
			r.Witness(cl, "const", s.arg, fmt.Sprintf("IdentifierFromConstant(%s): %s", core.Q(s.arg), what), map[string]string{"Kind": "const", "Const": s.arg})
		}
	}
	r.Set("layer_constant_sites", len(identConstSites))
	// dynamic value, all prefixes: all byte strings <= 2
	st := enum.Seqs(enum.Bytes256(), 2, func(v string, _ []int) {
		for si := range identPrefixSites {
			doPrefix(si, v)
		}
	})
	r.Set("layer_bytes_all_prefixes", fmt.Sprintf("%d prefixes x all byte strings length<=2 (%d)", len(identPrefixSites), st.States))
	if r.Thorough() {
		st := enum.Seqs(enum.Bytes256(), 3, func(v string, _ []int) { doPrefix(0, v); doPrefix(4, v) })
		r.Set("layer_bytes3", fmt.Sprintf("2 prefixes x all byte strings length<=3 (%d)", st.States))
	}
	// every code point, alone / after a letter / before a letter, with two prefixes
	var cps int64
	core.ParallelFor(0x110, func(blk int) {
		for v := rune(blk) << 12; v < rune(blk+1)<<12; v++ {
			if v >= 0xD800 && v <= 0xDFFF {
				continue
			}
			enc := ivalid.Encode([]rune{v})
			for _, si := range []int{0, 4} {
				doPrefix(si, enc)
				doPrefix(si, "a"+enc)
				doPrefix(si, enc+"a")
				doPrefix(si, "a"+enc+"\n")
			}
			atomic.AddInt64(&cps, 1)
		}
	})
	r.Set("layer_codepoints", fmt.Sprintf("every Unicode scalar value (%d) in 4 positions x 2 prefixes", cps))
	// class alphabet, longer strings, with and without trailing LF
	alpha := []string{"a", "Z", "0", "-", "_", " ", "\n", "\x00", "é", "١", "́", "\xff", "[", "`"}
	ln := 4
	if r.Thorough() {
		ln = 6
	}
	st2 := enum.Seqs(alpha, ln, func(v string, _ []int) {
		for _, si := range []int{0, 1, 4} {
			doPrefix(si, v)
			doPrefix(si, v+"\n")
		}
	})
	r.Set("layer_class_strings", fmt.Sprintf("%d symbols, length<=%d (%d) x 3 prefixes x {,+LF}", len(alpha), ln, st2.States))
	nl := enum.Long([]string{"a", "0", "-", "\u00e9", "\xff"}, []string{"", " ", "\n", "+1", "[", "\x00", "b\n", "\u0661", "x y"}, 300, func(v string) { doPrefix(0, v); doPrefix(4, v) })
	r.Set("layer_long", fmt.Sprintf("5 padding units x 9 cores x every padding length 0..300 x 3 placements x 2 prefixes: %d", nl*2))
	r.Set("evaluations", evals)
	r.Set("distinct_nontrivial", accepted)
	r.Set("rejected_by_panic", rejected)
	r.Set("rule", "exhaustive enumeration per layer; non-trivial = the constructor returned a value (did not panic), so the pattern and composition clauses were actually evaluated")
	r.Sample(map[string]string{"prefix": "a", "value": "b\n", "outcome": fmt.Sprint(c18Call(func() safehtml.Identifier { return identPrefixSites[0].f("b\n") }))})
	r.Sample(map[string]string{"prefix": "a", "value": "b-1_", "outcome": fmt.Sprint(c18Call(func() safehtml.Identifier { return identPrefixSites[0].f("b-1_") }))})
	r.Assume("constant arguments can only be exercised through generated constant call sites (tools/gen_consts.py): 828 constants and 22 prefixes")
}
