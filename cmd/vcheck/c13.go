package main

import (
	"encoding/json"
	"fmt"
	"sort"
	"strings"
	"sync/atomic"

	"github.com/google/safehtml"

	"verif/internal/core"
	"verif/internal/enum"
	"verif/internal/oracle/rfc3986"
)

type flagVal string

type mutFlag struct{ s string }

func (f *mutFlag) String() string   { return f.s }
func (f *mutFlag) Set(string) error { return nil }

func (f flagVal) String() string   { return string(f) }
func (f flagVal) Set(string) error { return nil }

func init() {
	register("C13", "exploration", checkC13)
	replayers["C13"] = func(raw json.RawMessage) (bool, string) {
		var in c13Case
		json.Unmarshal(raw, &in)
		cl, _, what := c13Judge(in)
		return cl != "", fmt.Sprintf("%+v: %s %s", in, cl, what)
	}
}

type c13Case struct {
	Op     string            // format | append | params
	Format string            // format or base
	Args   map[string]string // format args / params
	S      string            // appended string
}

// asciiLower folds ASCII letters only (strings.ToLower also maps U+212A KELVIN SIGN to 'k').
func asciiLower(s string) string {
	b := []byte(s)
	for i, c := range b {
		if c >= 'A' && c <= 'Z' {
			b[i] = c + 0x20
		}
	}
	return string(b)
}

func c13SafePrefix(s string) bool {
	l := asciiLower(s)
	if strings.HasPrefix(l, "about:blank#") {
		return true
	}
	rest := l
	if strings.HasPrefix(rest, "https:") {
		rest = rest[6:]
	}
	if strings.HasPrefix(rest, "//") {
		rest = rest[2:]
		i := 0
		for i < len(rest) && (rest[i] >= '0' && rest[i] <= '9' || rest[i] >= 'a' && rest[i] <= 'z' || strings.IndexByte(".:[]-", rest[i]) >= 0) {
			i++
		}
		return i > 0 && i < len(rest) && rest[i] == '/'
	}
	if strings.HasPrefix(l, "/") {
		return len(l) == 1 || l[1] != '/' && l[1] != '\\'
	}
	return false
}

type marker struct {
	start, end int
	label      string
}

func c13Markers(f string) []marker {
	var out []marker
	for i := 0; i+1 < len(f); {
		if f[i] == '%' && f[i+1] == '{' {
			j := i + 2
			for j < len(f) && (f[j] == '_' || f[j] >= '0' && f[j] <= '9' || f[j]|0x20 >= 'a' && f[j]|0x20 <= 'z') {
				j++
			}
			if j > i+2 && j < len(f) && f[j] == '}' {
				out = append(out, marker{i, j + 1, f[i+2 : j]})
				i = j + 1
				continue
			}
		}
		i++
	}
	return out
}

// c13Contained: path of result must stay under the directory spelled out by prefix (the static text
// before the first dynamic part).
func c13Contained(prefix, result string) (bool, string) {
	return c13ContainedStatic(prefix, prefix, result)
}

// c13HasDotDot: the text spells a ".." itself ('.' or %2e twice in a row).
func c13HasDotDot(s string) bool {
	l := strings.ToLower(s)
	for i := 0; i < len(l); i++ {
		n := 0
		j := i
		for n < 2 {
			if j < len(l) && l[j] == '.' {
				j++
			} else if strings.HasPrefix(l[j:], "%2e") {
				j += 3
			} else {
				break
			}
			n++
		}
		if n == 2 {
			return true
		}
	}
	return false
}

// c13HasDotDotSegment: one of the path segments of the text is a ".." ('.' or %2e twice, nothing else).
func c13HasDotDotSegment(s string) bool {
	if i := strings.IndexAny(s, "?#"); i >= 0 {
		s = s[:i]
	}
	for _, seg := range strings.FieldsFunc(s, func(r rune) bool { return r == '/' || r == '\\' }) {
		if l := strings.Replace(asciiLower(seg), "%2e", ".", -1); l == ".." {
			return true
		}
	}
	return false
}

// c13DotDotSegments counts the path segments that are exactly ".." ('.' or %2e twice).
func c13DotDotSegments(s string) int {
	if i := strings.IndexAny(s, "?#"); i >= 0 {
		s = s[:i]
	}
	n := 0
	for _, seg := range strings.FieldsFunc(s, func(r rune) bool { return r == '/' || r == '\\' }) {
		if strings.Replace(asciiLower(seg), "%2e", ".", -1) == ".." {
			n++
		}
	}
	return n
}

// static is all the programmer-written text (the format without its markers); if one of its path segments is a
// ".." the climb is the author's. A ".." inside a longer segment (/v1..2/) is no such licence.
func c13ContainedStatic(static, prefix, result string) (bool, string) {
	if c13HasDotDotSegment(static) {
		return true, ""
	}
	if strings.ContainsAny(prefix, "?#") || strings.HasPrefix(strings.ToLower(prefix), "about:") {
		return true, ""
	}
	pp := rfc3986.Split(prefix).Path
	if i := strings.LastIndexByte(pp, '/'); i >= 0 {
		pp = pp[:i+1]
	} else {
		return true, ""
	}
	base, _ := rfc3986.Resolve(pp)
	got, climbed := rfc3986.Resolve(rfc3986.Split(result).Path)
	base = base[:len(base)-1] // drop the trailing "" of the directory
	if climbed || len(got) < len(base) {
		return false, fmt.Sprintf("path resolves to /%s, above the directory %s", strings.Join(got, "/"), pp)
	}
	for i := range base {
		if got[i] != base[i] {
			return false, fmt.Sprintf("path resolves to %s, outside the directory %s", strings.Join(got, "/"), pp)
		}
	}
	return true, ""
}

func c13Judge(c c13Case) (string, string, string) {
	switch c.Op {
	case "format":
		t, err := safehtml.TrustedResourceURLFormatFromFlag(flagVal(c.Format), c.Args)
		res := t.String()
		ms := c13Markers(c.Format)
		missing := false
		for _, m := range ms {
			if _, ok := c.Args[m.label]; !ok {
				missing = true
			}
		}
		if err != nil {
			return "", "", ""
		}
		if !c13SafePrefix(c.Format) {
			return "unsafe-prefix", "", fmt.Sprintf("succeeded (%q) although the format has no safe prefix", res)
		}
		if missing {
			return "missing-arg", "", fmt.Sprintf("succeeded (%q) although an argument is missing", res)
		}
		var b strings.Builder
		last := 0
		for _, m := range ms {
			b.WriteString(c.Format[last:m.start])
			b.WriteString(rfc3986.Encode(c.Args[m.label]))
			last = m.end
		}
		b.WriteString(c.Format[last:])
		if want := b.String(); rfc3986.LowerEscapes(res) != rfc3986.LowerEscapes(want) {
			return "substitution", "", fmt.Sprintf("result %q, expected %q", res, want)
		}
		if len(ms) > 0 {
			// structure: scheme, authority, segment count, query/fragment presence as in the format with markers -> X
			var fx strings.Builder
			last = 0
			for _, m := range ms {
				fx.WriteString(c.Format[last:m.start] + "X")
				last = m.end
			}
			fx.WriteString(c.Format[last:])
			// browsers treat '\\' like '/' in the scheme-relative and path-absolute forms
			a, g := rfc3986.Split(strings.Replace(fx.String(), "\\", "/", -1)), rfc3986.Split(strings.Replace(res, "\\", "/", -1))
			if a.Scheme != g.Scheme || a.Authority != g.Authority || a.HasQuery != g.HasQuery || a.HasFragment != g.HasFragment ||
				strings.Count(a.Path, "/") != strings.Count(g.Path, "/") {
				what := "segments"
				switch {
				case a.Scheme != g.Scheme:
					what = "scheme"
				case a.Authority != g.Authority:
					what = "authority"
				case a.HasQuery != g.HasQuery:
					what = "query"
				case a.HasFragment != g.HasFragment:
					what = "fragment"
				}
				return "structure", what + " args=" + c13ArgSet(c.Args), fmt.Sprintf("result %q changes the %s of the format", res, what)
			}
			var static strings.Builder
			last = 0
			for _, m := range ms {
				static.WriteString(c.Format[last:m.start])
				last = m.end
			}
			static.WriteString(c.Format[last:])
			// no ".." segment may appear that the format does not spell out with static characters only
			if n, m := c13DotDotSegments(res), c13DotDotSegments(fx.String()); n > m {
				return "path-climb", "format-new-dotdot-segment args=" + c13ArgSet(c.Args), fmt.Sprintf("result %q has %d \"..\" segments, the format spells out %d", res, n, m)
			}
			if ok, why := c13ContainedStatic(static.String(), c.Format[:ms[0].start], res); !ok {
				return "path-climb", "format args=" + c13ArgSet(c.Args), fmt.Sprintf("result %q: %s", res, why)
			}
		}
	case "append":
		t, err := safehtml.TrustedResourceURLAppend(safehtml.TrustedResourceURLFromFlag(flagVal(c.Format)), c.S)
		if err != nil {
			return "", "", ""
		}
		res := t.String()
		if !c13SafePrefix(c.Format) {
			return "unsafe-prefix", "", fmt.Sprintf("Append succeeded (%q) although the base has no safe prefix", res)
		}
		if want := c.Format + rfc3986.Encode(c.S); rfc3986.LowerEscapes(res) != rfc3986.LowerEscapes(want) {
			return "substitution", "", fmt.Sprintf("result %q, expected %q", res, want)
		}
		if ok, why := c13Contained(c.Format, res); !ok {
			return "path-climb", "append", fmt.Sprintf("result %q: %s", res, why)
		}
	case "params":
		base := safehtml.TrustedResourceURLFromFlag(flagVal(c.Format))
		res := safehtml.TrustedResourceURLWithParams(base, c.Args).String()
		for i := 0; i < 8; i++ {
			if again := safehtml.TrustedResourceURLWithParams(base, c.Args).String(); again != res {
				return "map-order", "", fmt.Sprintf("two evaluations differ: %q vs %q", res, again)
			}
		}
		url, frag := c.Format, ""
		if i := strings.IndexByte(url, '#'); i >= 0 {
			url, frag = url[:i], url[i:]
		}
		if !strings.HasPrefix(res, url) || !strings.HasSuffix(res, frag) || len(res) < len(url)+len(frag) {
			return "params-preserve", "", fmt.Sprintf("result %q does not preserve %q ... %q", res, url, frag)
		}
		mid := res[len(url) : len(res)-len(frag)]
		var pairs []string
		for k, v := range c.Args {
			if k != "" && v != "" {
				pairs = append(pairs, rfc3986.Encode(k)+"="+rfc3986.Encode(v))
			}
		}
		sort.Strings(pairs)
		if len(pairs) == 0 {
			if mid != "" {
				return "params-query", "", fmt.Sprintf("no effective parameters but %q was inserted", mid)
			}
			return "", "", ""
		}
		hasQ := strings.IndexByte(url, '?') >= 0
		switch {
		case !hasQ:
			if !strings.HasPrefix(mid, "?") {
				return "params-query", "", fmt.Sprintf("base has no query but the inserted text %q does not start one", mid)
			}
			mid = mid[1:]
		case strings.HasSuffix(url, "?") || strings.HasSuffix(url, "&"):
			mid = strings.TrimPrefix(mid, "&")
		default:
			if !strings.HasPrefix(mid, "&") {
				return "params-query", "", fmt.Sprintf("base has a query but the inserted text %q does not start with '&'", mid)
			}
			mid = mid[1:]
		}
		got := strings.Split(rfc3986.LowerEscapes(mid), "&")
		sort.Strings(got)
		if strings.Join(got, "&") != strings.Join(pairs, "&") {
			return "params-query", "", fmt.Sprintf("inserted pairs %q, expected %q", got, pairs)
		}
	}
	return "", "", ""
}

// c13ArgSet renders the set of distinct argument values (discriminator of a finding).
func c13ArgSet(a map[string]string) string {
	seen := map[string]bool{}
	var vs []string
	for _, v := range a {
		if !seen[v] {
			seen[v] = true
			vs = append(vs, core.Q(v))
		}
	}
	sort.Strings(vs)
	return strings.Join(vs, ",")
}

// c13Shape abstracts a format to the shape of its last path segment(s) around markers (discriminator).
func c13Shape(f string, ms []marker) string {
	var b strings.Builder
	last := 0
	for _, m := range ms {
		b.WriteString(f[last:m.start] + "%{}")
		last = m.end
	}
	b.WriteString(f[last:])
	s := b.String()
	if i := strings.LastIndexByte(s[:strings.Index(s, "%{}")], '/'); i >= 0 {
		s = s[i:]
	}
	return s
}

func checkC13(r *core.Run) {
	var evals, succ int64
	run := func(c c13Case, input string) {
		atomic.AddInt64(&evals, 1)
		if cl, discr, what := c13Judge(c); cl != "" {
			r.Witness(cl, discr, input, fmt.Sprintf("%s: %s", input, what), c)
		}
	}
	prefixes := []string{"https://x.com/a/b/", "HTTPS://X.COM/", "//x.com/p/", "/a/", "/p", "about:blank#", "https://[::1]:8/d/",
		"http://x.com/", "https://x.com", "https://x.com\\", "https:///x/", "//", "/\\x/", "//@x/", "x.com/", "", "javascript://x.com/", "https://x_y/", "https:/x/", "/", "ABOUT:BLANK#",
		"/x..y/", "https://x.com/v1..2/", "http\u017f://x.com/", "//x\u212a.com/", "about:blan\u212a#", "HTTP\u017f://x.com/a/",
		// a marker directly after the leading '/', followed by something that reads as an origin once the marker is empty
		"/%{x}/h.com/", "/%{x}\\h.com/", "/%{x}%{y}/h.com:8/"}
	body := []string{"a", "/", ".", "%{x}", "%{y}", "%{", "}", "?", "#", "%2e", "%2E", "\\"}
	argv := []string{"", ".", "..", "/", "\\", "?", "#", "%", "%2e", "%2E%2e", ":", "@", "é", "\x00", " ", "a/b", ".a", "a.", "a", "&=", "%2f"}
	bl := 3
	if r.Thorough() {
		bl = 4
	}
	var bodies []string
	enum.Seqs(body, bl, func(s string, _ []int) {})
	{
		var rec func(p string, d int)
		rec = func(p string, d int) {
			bodies = append(bodies, p)
			if d == 0 {
				return
			}
			for _, b := range body {
				rec(p+b, d-1)
			}
		}
		rec("", bl)
	}
	var nfmt int64
	core.ParallelFor(len(bodies), func(bi int) {
		b := bodies[bi]
		for _, p := range prefixes {
			f := p + b
			hasX, hasY := strings.Contains(f, "%{x}"), strings.Contains(f, "%{y}")
			xs, ys := []int{-1}, []int{-1}
			if hasX {
				xs = make([]int, 0, len(argv)+1)
				for i := -1; i < len(argv); i++ {
					xs = append(xs, i)
				}
			}
			if hasY {
				ys = make([]int, 0, len(argv)+1)
				for i := -1; i < len(argv); i++ {
					ys = append(ys, i)
				}
			}
			for _, xi := range xs {
				for _, yi := range ys {
					args := map[string]string{}
					in := "Format(" + core.Q(f)
					if xi >= 0 {
						args["x"] = argv[xi]
						in += " x=" + core.Q(argv[xi])
					}
					if yi >= 0 {
						args["y"] = argv[yi]
						in += " y=" + core.Q(argv[yi])
					}
					in += ")"
					c := c13Case{Op: "format", Format: f, Args: args}
					if _, err := safehtml.TrustedResourceURLFormatFromFlag(flagVal(f), args); err == nil {
						atomic.AddInt64(&succ, 1)
					}
					run(c, in)
					atomic.AddInt64(&nfmt, 1)
				}
			}
		}
	})
	r.Set("layer_format", fmt.Sprintf("%d prefixes x %d bodies (<=%d symbols of %d) x argument assignments over %d values (+missing): %d", len(prefixes), len(bodies), bl, len(body), len(argv), nfmt))
	// FromConstant call sites agree with FromFlag on the same string (binds the constant entry point to the explored one)
	for _, cs := range c13ConstSites {
		for _, a := range argv {
			args := map[string]string{"x": a, "y": "k"}
			t1, e1 := cs.f(args)
			t2, e2 := safehtml.TrustedResourceURLFormatFromFlag(flagVal(cs.format), args)
			atomic.AddInt64(&evals, 1)
			if t1.String() != t2.String() || (e1 == nil) != (e2 == nil) {
				r.Witness("constant-vs-flag", "", cs.format+"\x00"+a, fmt.Sprintf("FormatFromConstant(%q,x=%q)=%q,%v but FormatFromFlag gives %q,%v", cs.format, a, t1, e1, t2, e2), nil)
			}
		}
	}
	// hidden state: the same flag.Value object reused with a changed format must behave like a fresh one
	{
		fmts := []string{"https://x.com/a/%{x}", "//x.com/%{x}", "/p/%{x}", "about:blank#%{x}", "//%{x}/a.js", "javascript:%{x}", "http://x.com/%{x}", "%{x}", "https://x.com/%{x}%{y}"}
		args := map[string]string{"x": "evil.example", "y": "."}
		for _, f1 := range fmts {
			for _, f2 := range fmts {
				fl := &mutFlag{f1}
				safehtml.TrustedResourceURLFormatFromFlag(fl, args)
				fl.s = f2
				got, gerr := safehtml.TrustedResourceURLFormatFromFlag(fl, args)
				want, werr := safehtml.TrustedResourceURLFormatFromFlag(flagVal(f2), args)
				atomic.AddInt64(&evals, 1)
				if got.String() != want.String() || (gerr == nil) != (werr == nil) {
					r.Witness("flag-reuse", "", f1+"\x00"+f2, fmt.Sprintf("FormatFromFlag on a flag that first held %q and now holds %q gives (%q, %v); a fresh flag holding %q gives (%q, %v)", f1, f2, got, gerr, f2, want, werr), nil)
				}
				if gerr == nil {
					if cl, _, what := c13Judge(c13Case{Op: "format", Format: f2, Args: args}); cl == "" && !c13SafePrefix(f2) {
						_ = what
					}
					if !c13SafePrefix(f2) {
						r.Witness("unsafe-prefix", "flag-reuse", f1+"\x00"+f2, fmt.Sprintf("FormatFromFlag succeeded (%q) for the unsafe format %q held by a reused flag", got, f2), nil)
					}
				}
			}
		}
		r.Set("layer_flag_reuse", fmt.Sprintf("%d x %d ordered pairs of formats through one mutable flag.Value", len(fmts), len(fmts)))
	}
	// argument / appended string lengths 0..300 (windows, truncation, alignment after multi-byte characters)
	nl := enum.Long([]string{"a", "\u00e9", "\xff", "%", "."}, []string{"", "/", "..", ".", "%2e", "?", "#", "a/b", "\x00"}, 300, func(v string) {
		run(c13Case{Op: "format", Format: "https://x.com/a/b/%{x}", Args: map[string]string{"x": v}}, "Format(\"https://x.com/a/b/%{x}\" x="+core.Q(v)+")")
		run(c13Case{Op: "format", Format: "/p/%{x}.%{x}", Args: map[string]string{"x": v}}, "Format(\"/p/%{x}.%{x}\" x="+core.Q(v)+")")
		run(c13Case{Op: "append", Format: "https://x.com/a/b/", S: v}, "Append(\"https://x.com/a/b/\","+core.Q(v)+")")
		run(c13Case{Op: "append", Format: "https://x.com/a/%2e", S: v}, "Append(\"https://x.com/a/%2e\","+core.Q(v)+")")
		run(c13Case{Op: "params", Format: "https://x.com/a?b=c#f", Args: map[string]string{"k": v, v: "v"}}, "WithParams(k="+core.Q(v)+")")
	})
	r.Set("layer_long", fmt.Sprintf("5 padding units x 9 cores x every padding length 0..300 x 3 placements x 5 operations: %d", nl*5))
	// formats with several markers: dots that only markers keep apart, partial escapes completed by arguments
	var nmm int64
	mfmts := []string{"/lib/v%{x}.%{y}/%{a}%{b}/z.js", "/lib/v%{x}.%{y}.%{x}/%{a}%{b}/z.js", "/a/.%{x}.", "/a/.%{x}./b/.%{y}", "/a/%{x}.%{y}./%{a}%{b}", "https://x.com/l/%2e%2%{x}", "/s/.%2%{x}/b.js", "/a/%2%{x}%2%{y}/z",
		"/a/%{x}%{y}%{a}%{b}", "/a/.%{x}%{y}", "/a/%{x}.%{y}", "/a.%{x}.b/%{a}.%{b}"}
	mvals := []string{"", ".", "e", "E", "1", "%2e", "2e"}
	for _, f := range mfmts {
		for _, x := range mvals {
			for _, y := range mvals {
				for _, a := range []string{".", "", "1"} {
					for _, b := range []string{".", "", "e"} {
						args := map[string]string{"x": x, "y": y, "a": a, "b": b}
						run(c13Case{Op: "format", Format: f, Args: args}, fmt.Sprintf("Format(%q x=%q y=%q a=%q b=%q)", f, x, y, a, b))
						nmm++
					}
				}
			}
		}
	}
	r.Set("layer_multi_marker", fmt.Sprintf("%d formats with up to 4 markers x 7^2 x 3^2 argument assignments: %d", len(mfmts), nmm))
	// Append
	bases := []string{"https://x.com/a/b/", "https://x.com/a/b", "https://x.com/a/b/.", "https://x.com/a/%2e", "//x.com/", "/a/", "/a", "about:blank#", "https://x.com/a?q=", "https://x.com/a#f",
		"http://x.com/", "x.com/", "javascript:", "", "/", "//", "/\\x", "https:///x", "/a/b/..", "https://x.com/a/b/c.", "/a/./",
		"/v1..2/lib/", "/v1..2/lib/.", "https://x.com/a..b/", "http\u017f://x.com/", "//x\u212a.com/", "/a/?q=..", "/a/#.."}
	var nap int64
	for _, base := range bases {
		base := base
		for _, a := range argv {
			run(c13Case{Op: "append", Format: base, S: a}, "Append("+core.Q(base)+","+core.Q(a)+")")
			nap++
		}
		st := enum.Seqs(enum.Bytes256(), 2, func(s string, _ []int) {
			run(c13Case{Op: "append", Format: base, S: s}, "Append("+core.Q(base)+","+core.Q(s)+")")
		})
		nap += st.States
	}
	r.Set("layer_append", fmt.Sprintf("%d bases x (%d values + all byte strings length<=2): %d", len(bases), len(argv), nap))
	// WithParams
	pbases := []string{"https://x.com/a", "https://x.com/a?", "https://x.com/a?b=c", "https://x.com/a?b=c&", "https://x.com/a#f", "https://x.com/a?b=c#f", "https://x.com/a#f?g=h", "/a?#", "about:blank#x", "", "https://x.com/a?b#c#d?e", "/p#a?", "about:blank#?", "https://x.com/app.js#/settings?tab=1",
		"https://x.com/R&", "/static/q&a/x&#top", "/a&", "https://x.com/a&b=c", "/a?&", "/a?b&#f", "https://x.com/a;b"}
	kv := []string{"", "a", "b", "&", "=", "#", "?", "%26", "é", " ", "a=b&c", "/", "\x00"}
	var npa int64
	core.ParallelFor(len(pbases), func(bi int) {
		for _, k1 := range kv {
			for _, v1 := range kv {
				run(c13Case{Op: "params", Format: pbases[bi], Args: map[string]string{k1: v1}}, fmt.Sprintf("WithParams(%q,{%q:%q})", pbases[bi], k1, v1))
				atomic.AddInt64(&npa, 1)
				for _, k2 := range kv {
					if k2 <= k1 {
						continue
					}
					for _, v2 := range kv {
						run(c13Case{Op: "params", Format: pbases[bi], Args: map[string]string{k1: v1, k2: v2}}, fmt.Sprintf("WithParams(%q,{%q:%q,%q:%q})", pbases[bi], k1, v1, k2, v2))
						atomic.AddInt64(&npa, 1)
					}
				}
			}
		}
	})
	r.Set("layer_params", fmt.Sprintf("%d bases x all maps with <=2 entries over %d strings: %d (each evaluated 9x for the map-order sub-clause: sampling, not exhaustive)", len(pbases), len(kv), npa))
	r.Set("evaluations", evals)
	r.Set("distinct_nontrivial", succ)
	r.Set("rule", "exhaustive enumeration per layer; non-trivial (counted for the format layer) = the constructor succeeded, so substitution, structure and containment clauses were evaluated")
	for _, c := range []c13Case{{Op: "format", Format: "https://x.com/a/b/%{x}%{y}", Args: map[string]string{"x": ".", "y": "."}}, {Op: "append", Format: "https://x.com/a/b/", S: ".."}, {Op: "params", Format: "https://x.com/a#f?g=h", Args: map[string]string{"k": "v&"}}} {
		cl, _, what := c13Judge(c)
		r.Sample(map[string]interface{}{"case": c, "clause": cl, "detail": what})
	}
	r.NotExhaustive("sub-clause 'result does not depend on map iteration order' cannot be enumerated (Go randomises map iteration inside the runtime); each map is evaluated 9 times and compared with the order-free expected value")
	r.Assume("format strings reach the implementation through TrustedResourceURLFormatFromFlag; generated FromConstant call sites are checked to agree with it")
}

var c13ConstSites = []struct {
	format string
	f      func(map[string]string) (safehtml.TrustedResourceURL, error)
}{
	{"https://x.com/a/%{x}", func(a map[string]string) (safehtml.TrustedResourceURL, error) {
		return safehtml.TrustedResourceURLFormatFromConstant("https://x.com/a/%{x}", a)
	}},
	{"//x.com/%{x}/%{y}?q=%{x}", func(a map[string]string) (safehtml.TrustedResourceURL, error) {
		return safehtml.TrustedResourceURLFormatFromConstant("//x.com/%{x}/%{y}?q=%{x}", a)
	}},
	{"/p%{x}%{y}", func(a map[string]string) (safehtml.TrustedResourceURL, error) {
		return safehtml.TrustedResourceURLFormatFromConstant("/p%{x}%{y}", a)
	}},
	{"http://x.com/%{x}", func(a map[string]string) (safehtml.TrustedResourceURL, error) {
		return safehtml.TrustedResourceURLFormatFromConstant("http://x.com/%{x}", a)
	}},
	{"about:blank#%{x}", func(a map[string]string) (safehtml.TrustedResourceURL, error) {
		return safehtml.TrustedResourceURLFormatFromConstant("about:blank#%{x}", a)
	}},
	{"https://x.com/a/.%{x}", func(a map[string]string) (safehtml.TrustedResourceURL, error) {
		return safehtml.TrustedResourceURLFormatFromConstant("https://x.com/a/.%{x}", a)
	}},
}
