package main

import (
	"encoding/json"
	"fmt"
	"reflect"
	"strings"
	"sync/atomic"

	"github.com/google/safehtml"

	"verif/internal/core"
	"verif/internal/enum"
	"verif/internal/oracle/csstok"
)

const innocuousProp = "zGoSafezInvalidPropertyValue"

// documented order of the plain-value fields and their property names
var c15Plain = []struct{ field, prop string }{
	{"Display", "display"}, {"BackgroundColor", "background-color"}, {"BackgroundPosition", "background-position"},
	{"BackgroundRepeat", "background-repeat"}, {"BackgroundSize", "background-size"}, {"Color", "color"}, {"Height", "height"},
	{"Width", "width"}, {"Left", "left"}, {"Right", "right"}, {"Top", "top"}, {"Bottom", "bottom"}, {"FontWeight", "font-weight"},
	{"Padding", "padding"}, {"ZIndex", "z-index"},
}

func init() {
	register("C15", "exploration", checkC15)
	replayers["C15"] = func(raw json.RawMessage) (bool, string) {
		var p safehtml.StyleProperties
		json.Unmarshal(raw, &p)
		cl, _, what := c15Judge(p)
		return cl != "", fmt.Sprintf("StyleFromProperties(%+v) = %q; %s %s", p, safehtml.StyleFromProperties(p).String(), cl, what)
	}
}

// c15InAlphabet: documented alphabet of a plain value; returns first offending byte (as string) if outside.
func c15InAlphabet(field, v string) (bool, string) {
	for i := 0; i < len(v); i++ {
		c := v[i]
		letter := c|0x20 >= 'a' && c|0x20 <= 'z'
		if field == "Display" {
			if !(letter || c == '-') {
				return false, core.Q(string([]byte{c}))
			}
			continue
		}
		if !(letter || c >= '0' && c <= '9' || c == ' ' || c == '\t' || strings.IndexByte("+-.!#%_/*", c) >= 0) {
			return false, core.Q(string([]byte{c}))
		}
		if (c == '/' || c == '*') && i+1 < len(v) && (v[i+1] == '/' || v[i+1] == '*') {
			return false, core.Q(v[i : i+2])
		}
	}
	return true, ""
}

func c15FieldVal(p safehtml.StyleProperties, f string) string {
	return reflect.ValueOf(p).FieldByName(f).String()
}

// nonWS returns the components that are not whitespace tokens.
func nonWS(cs []csstok.Component) []csstok.Component {
	var out []csstok.Component
	for _, c := range cs {
		if !c.Block && c.Tok.Kind == csstok.Whitespace {
			continue
		}
		out = append(out, c)
	}
	return out
}

func splitCommas(cs []csstok.Component) [][]csstok.Component {
	var out [][]csstok.Component
	cur := []csstok.Component{}
	for _, c := range cs {
		if !c.Block && c.Tok.Kind == csstok.Comma {
			out = append(out, cur)
			cur = []csstok.Component{}
			continue
		}
		cur = append(cur, c)
	}
	return append(out, cur)
}

// c15Judge returns (clause, discriminator, explanation).
func c15Judge(p safehtml.StyleProperties) (string, string, string) {
	out := safehtml.StyleFromProperties(p).String()
	if i := strings.IndexByte(out, '<'); i >= 0 {
		return "angle-bracket", "", "result contains '<'"
	}
	if out != "" && !strings.HasSuffix(out, ";") {
		return "trailing-semicolon", "", "result is non-empty and does not end with ';'"
	}
	toks := csstok.Tokenize(out)
	if pr := csstok.Problems(toks); len(pr) > 0 {
		return "token-problem", pr[0], fmt.Sprintf("tokenizer finds %v", pr)
	}
	dl := csstok.ParseDeclarations(out)
	if len(dl.Errors) > 0 || dl.AtRules > 0 {
		return "declaration-list", "", fmt.Sprintf("declaration list parse errors %v at-rules %d", dl.Errors, dl.AtRules)
	}
	var want []string
	if len(p.BackgroundImageURLs) > 0 {
		want = append(want, "background-image")
	}
	if len(p.FontFamily) > 0 {
		want = append(want, "font-family")
	}
	for _, f := range c15Plain {
		if c15FieldVal(p, f.field) != "" {
			want = append(want, f.prop)
		}
	}
	var got []string
	for _, d := range dl.Decls {
		got = append(got, d.Name)
	}
	if strings.Join(got, ",") != strings.Join(want, ",") {
		return "declaration-set", "", fmt.Sprintf("declarations %v, expected exactly %v", got, want)
	}
	// plain fields, matched exactly from the end of the string
	rest := out
	for i := len(c15Plain) - 1; i >= 0; i-- {
		f := c15Plain[i]
		v := c15FieldVal(p, f.field)
		if v == "" {
			continue
		}
		inA, off := c15InAlphabet(f.field, v)
		switch {
		case strings.HasSuffix(rest, f.prop+":"+innocuousProp+";"):
			rest = strings.TrimSuffix(rest, f.prop+":"+innocuousProp+";")
		case strings.HasSuffix(rest, f.prop+":"+v+";"):
			if !inA {
				return "plain-alphabet", off, fmt.Sprintf("%s value %s is outside the documented alphabet (offending %s) but was emitted verbatim", f.field, core.Q(v), off)
			}
			rest = strings.TrimSuffix(rest, f.prop+":"+v+";")
		default:
			return "plain-value", "", fmt.Sprintf("declaration for %s is neither the value verbatim nor the innocuous constant", f.field)
		}
	}
	// list fields: what remains
	ld := csstok.ParseDeclarations(rest)
	di := 0
	if len(p.BackgroundImageURLs) > 0 {
		if di >= len(ld.Decls) || ld.Decls[di].Name != "background-image" {
			return "list-structure", "", "background-image declaration missing from the list part"
		}
		items := splitCommas(ld.Decls[di].Value)
		if len(items) != len(p.BackgroundImageURLs) {
			return "url-list", "", fmt.Sprintf("background-image has %d comma-separated items for %d URLs", len(items), len(p.BackgroundImageURLs))
		}
		for k, it := range items {
			it = nonWS(it)
			if len(it) != 1 || !it[0].Block || it[0].Tok.Kind != csstok.Function || !strings.EqualFold(it[0].Tok.Value, "url") || !it[0].Closed {
				return "url-list", "", fmt.Sprintf("background-image item %d is not a single url(...) function", k)
			}
			ch := nonWS(it[0].Children)
			if len(ch) != 1 || ch[0].Block || ch[0].Tok.Kind != csstok.String {
				return "url-list", "", fmt.Sprintf("url() item %d does not contain exactly one string", k)
			}
			u := ch[0].Tok.Value
			if safehtml.URLSanitized(u).String() != u || c11JS(u) {
				return "url-unsafe", "", fmt.Sprintf("url() item %d unescapes to %s which URLSanitized does not approve", k, core.Q(u))
			}
		}
		di++
	}
	if len(p.FontFamily) > 0 {
		if di >= len(ld.Decls) || ld.Decls[di].Name != "font-family" {
			return "list-structure", "", "font-family declaration missing from the list part"
		}
		items := splitCommas(ld.Decls[di].Value)
		if len(items) != len(p.FontFamily) {
			return "font-list", "", fmt.Sprintf("font-family has %d comma-separated items for %d names", len(items), len(p.FontFamily))
		}
		for k, it := range items {
			it = nonWS(it)
			if len(it) != 1 || it[0].Block || (it[0].Tok.Kind != csstok.Ident && it[0].Tok.Kind != csstok.String) {
				return "font-list", "", fmt.Sprintf("font-family item %d is not a single identifier or string", k)
			}
		}
		di++
	}
	if di != len(ld.Decls) {
		return "list-structure", "", fmt.Sprintf("unexpected extra declarations in the list part %q", rest)
	}
	return "", "", ""
}

// c15Compact prints only the non-empty fields.
func c15Compact(p safehtml.StyleProperties) string {
	var parts []string
	if len(p.BackgroundImageURLs) > 0 {
		parts = append(parts, fmt.Sprintf("BackgroundImageURLs=%q", p.BackgroundImageURLs))
	}
	if len(p.FontFamily) > 0 {
		parts = append(parts, fmt.Sprintf("FontFamily=%q", p.FontFamily))
	}
	for _, f := range c15Plain {
		if v := c15FieldVal(p, f.field); v != "" {
			parts = append(parts, f.field+"="+core.Q(v))
		}
	}
	return strings.Join(parts, " ")
}

func checkC15(r *core.Run) {
	var evals, nontriv int64
	eval := func(p safehtml.StyleProperties) {
		atomic.AddInt64(&evals, 1)
		out := safehtml.StyleFromProperties(p).String()
		if strings.Contains(out, innocuousProp) || strings.Contains(out, "\\") || strings.Contains(out, "about:invalid") {
			atomic.AddInt64(&nontriv, 1)
		}
		if cl, discr, what := c15Judge(p); cl != "" {
			b := c15Compact(p)
			r.Witness(cl, discr, b, fmt.Sprintf("StyleFromProperties{%s}=%s: %s", b, core.Q(out), what), p)
		}
	}
	setField := func(p *safehtml.StyleProperties, f, v string) { reflect.ValueOf(p).Elem().FieldByName(f).SetString(v) }
	one := func(f, v string) safehtml.StyleProperties {
		var p safehtml.StyleProperties
		setField(&p, f, v)
		return p
	}
	// hidden state between calls (runs first, sequentially)
	var items []pairItem
	for _, p := range []safehtml.StyleProperties{{}, {Color: "red"}, {Color: "r;d"}, {Color: "expression(1)"}, {Width: "1px"}, {Width: "1px;color:red"}, {Width: "a,b"},
		{BackgroundImageURLs: []string{"/a"}}, {BackgroundImageURLs: []string{"javascript:x"}}, {BackgroundImageURLs: []string{"/a\")"}}, {BackgroundImageURLs: []string{"/a", "javascript:x"}},
		{FontFamily: []string{"a b"}}, {FontFamily: []string{"a\"b"}}, {FontFamily: []string{"serif", "a;b"}}, {FontFamily: []string{"\"a\""}}, {Display: "none"}, {Display: "no ne"},
		{Color: strings.Repeat("a", 300)}, {Color: strings.Repeat("a", 255) + ";"}, {Height: "%s"}, {Height: "10%"}, {BackgroundRepeat: "no-repeat"}, {BackgroundRepeat: "url(x)"},
		{BackgroundPosition: "top le;ft"}, {BackgroundColor: "#fff"}, {BackgroundColor: "/*"}} {
		p := p
		items = append(items, pairItem{name: c15Compact(p), replay: c15ReplayMap(p), judge: func() (cl, what string) {
			if pn, msg := core.Try(func() { cl, _, what = c15Judge(p) }); pn {
				return "panic", "panicked: " + msg
			}
			return cl, what
		}})
	}
	pairLayer(r, items)
	class := []string{"#fff", "#", "rgb(0,0,0)", "rgb(", "hsl(", "10px", "1em", "50%", "calc(", "var(--x)", "a", "1", " ", ";", ":", "{", "}", "(", ")", "\"", "'", "\\", "/", "*", "@", "!", "<", "\n", ",", "-", "é", "\x00", "[", "]", "\f", "important", "url("}
	// (a) every plain field: all byte strings <=1, class strings <=2; followed by another set field
	for _, f := range c15Plain {
		f := f
		enum.Seqs(enum.Bytes256(), 1, func(v string, _ []int) {
			eval(one(f.field, v))
			p := one(f.field, "x"+v)
			p.ZIndex, p.Display = "1", "b"
			eval(p)
		})
		enum.Seqs(class, 2, func(v string, _ []int) {
			p := one(f.field, v)
			p.ZIndex, p.Display = "1", "b"
			eval(p)
		})
	}
	r.Set("layer_all_fields", "15 plain fields x (all bytes length<=1 alone and after 'x' + class strings length<=2 with neighbours set)")
	// (b) deep layers on Display, Width, Color
	bl, cl := 2, 3
	if r.Thorough() {
		bl, cl = 3, 5
	}
	for _, f := range []string{"Width", "Display"} {
		f := f
		st := enum.Seqs(enum.Bytes256(), bl, func(v string, _ []int) { eval(one(f, v)) })
		r.Set("layer_bytes_"+f, fmt.Sprintf("all byte strings length<=%d: %d", bl, st.States))
	}
	st := enum.Seqs(class, cl, func(v string, _ []int) {
		p := one("Color", v)
		p.Width = "1px"
		eval(p)
	})
	r.Set("layer_class_Color", fmt.Sprintf("%d class symbols length<=%d followed by width: %d", len(class), cl, st.States))
	// (c) pairs of fields (cross-field merging)
	pl := 1
	if r.Thorough() {
		pl = 2
	}
	var vals []string
	enum.Seqs(class, pl, func(v string, _ []int) {})
	{
		vals = append(vals, "")
		var rec func(prefix string, d int)
		rec = func(prefix string, d int) {
			if d == 0 {
				return
			}
			for _, c := range class {
				vals = append(vals, prefix+c)
				rec(prefix+c, d-1)
			}
		}
		rec("", pl)
	}
	var pairs int64
	type fp struct{ a, b string }
	var fps []fp
	for i := range c15Plain {
		for j := i + 1; j < len(c15Plain); j++ {
			if r.Thorough() || j == i+1 || i == 0 {
				fps = append(fps, fp{c15Plain[i].field, c15Plain[j].field})
			}
		}
	}
	core.ParallelFor(len(fps), func(k int) {
		for _, va := range vals {
			for _, vb := range vals {
				var p safehtml.StyleProperties
				setField(&p, fps[k].a, va)
				setField(&p, fps[k].b, vb)
				eval(p)
				atomic.AddInt64(&pairs, 1)
			}
		}
	})
	r.Set("layer_field_pairs", fmt.Sprintf("%d field pairs x %d^2 values: %d", len(fps), len(vals), pairs))
	// (d) list fields
	lclass := append([]string{}, class...)
	lclass = append(lclass, "javascript:alert(1)", "\"", "a b", "\\22", "\xff", " ", "\x7f", "\xc2\x85", "%", "%s", "%20", "%[", "%!", "%d", "\U0001F600", "\u65e5", "\xf0\x9f")
	var l1 []string
	l1 = append(l1, "")
	for _, a := range lclass {
		l1 = append(l1, a)
	}
	var l2 []string
	for _, a := range lclass {
		for _, b := range lclass {
			l2 = append(l2, a+b)
		}
	}
	var l3 []string
	if r.Thorough() {
		for _, a := range lclass {
			for _, b := range l2 {
				l3 = append(l3, a+b)
			}
		}
	}
	var lists int64
	single := append(append(append([]string{}, l1...), l2...), l3...)
	core.ParallelFor(len(single), func(i int) {
		v := single[i]
		for _, wrap := range []string{v, "\"" + v + "\"", "x" + v, v + "x", "'" + v + "'", "'" + v + "'x"} {
			eval(safehtml.StyleProperties{BackgroundImageURLs: []string{wrap}, Color: "red"})
			eval(safehtml.StyleProperties{FontFamily: []string{wrap}, Color: "red"})
			atomic.AddInt64(&lists, 2)
		}
	})
	two := append(append([]string{}, l1...), l2[:0]...)
	if r.Thorough() {
		two = append(two, l2...)
	}
	core.ParallelFor(len(two), func(i int) {
		for _, b := range two {
			eval(safehtml.StyleProperties{BackgroundImageURLs: []string{two[i], b}, FontFamily: []string{b, two[i]}})
			atomic.AddInt64(&lists, 1)
		}
	})
	core.ParallelFor(len(l1), func(i int) {
		for _, b := range l1 {
			for _, c := range l1 {
				eval(safehtml.StyleProperties{BackgroundImageURLs: []string{l1[i], b, c}})
				eval(safehtml.StyleProperties{FontFamily: []string{l1[i], b, c}, Display: "x"})
				atomic.AddInt64(&lists, 2)
			}
		}
	})
	nl := enum.Long([]string{"a", "1", "\u00e9", "\xff", " ", "%"}, []string{"", ";", "\"", "\\", "<", ")", "javascript:x", "/*", ",", "\n", "x:y;z"}, 200, func(v string) {
		eval(one("Width", v))
		eval(one("Display", v))
		eval(safehtml.StyleProperties{BackgroundImageURLs: []string{v}, FontFamily: []string{v}, Color: "red"})
	})
	r.Set("layer_long", fmt.Sprintf("6 padding units x 11 cores x every padding length 0..200 x 3 placements x 3 field groups: %d", nl*3))
	r.Set("layer_lists", fmt.Sprintf("lists of 1-3 elements over %d class symbols (1 elem: length<=%d in 4 wrappings; 2 elems; 3 elems length<=1): %d", len(lclass), map[bool]int{false: 2, true: 3}[r.Thorough()], lists))
	r.Set("evaluations", evals)
	r.Set("distinct_nontrivial", nontriv)
	r.Set("rule", "exhaustive enumeration per layer; non-trivial = the result contains the innocuous constant, a CSS escape or the innocuous URL, i.e. validation or escaping actually intervened")
	for _, p := range []safehtml.StyleProperties{{Width: "1,2"}, {Color: "red;x:y"}, {FontFamily: []string{"a\";b"}, BackgroundImageURLs: []string{"javascript:x", "a\")"}}} {
		r.Sample(map[string]interface{}{"properties": p, "result": safehtml.StyleFromProperties(p).String()})
	}
	r.Assume("oracle O4 (CSS Syntax 3 tokenizer/parser written from the spec, self-tested on hand-derived cases) is correct")
}

// c15ReplayMap is the replay form of a property set (the struct's own JSON fields), as a map so that a pair
// witness can add the predecessor call.
func c15ReplayMap(p safehtml.StyleProperties) map[string]interface{} {
	b, _ := json.Marshal(p)
	m := map[string]interface{}{}
	json.Unmarshal(b, &m)
	return m
}
