package main

import (
	"fmt"

	"verif/internal/oracle/htmltok"
)

// selftest validates the oracles against their trust anchors. A failure is a
// harness error (exit 2), never a property violation.
func selftest(verbose bool) int {
	rc := 0
	h := htmltok.SelfTest()
	nf := len(h.Failures)
	if verbose || nf > 0 {
		fmt.Printf("htmltok vs html5lib-tests tokenizer corpus: cases=%d passed=%d skipped=%d failed=%d\n", h.Cases, h.Passed, h.Skipped, nf)
	}
	if nf > 0 {
		rc = 2
		for i, f := range h.Failures {
			if f != "" && i < 25 {
				fmt.Println("  FAIL", f)
			}
		}
	}
	return rc
}
