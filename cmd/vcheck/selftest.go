package main

import (
	"fmt"

	"verif/internal/oracle/csstok"
	"verif/internal/oracle/htmltok"
	"verif/internal/oracle/whaturl"
)

// selftest validates the oracles against their trust anchors. A failure is a
// harness error (exit 2), never a property violation.
func selftest(verbose bool) int {
	rc := 0
	h := htmltok.SelfTest()
	nf := len(h.Failures)
	if verbose || nf > 0 {
		fmt.Printf("htmltok vs html5lib-tests tokenizer corpus: cases=%d passed=%d skipped=%d failed=%d\n", h.Cases, h.Passed, h.Skipped, nf)
	}
	if nf > 0 {
		rc = 2
		for i, f := range h.Failures {
			if f != "" && i < 25 {
				fmt.Println("  FAIL", f)
			}
		}
	}
	cc, cf := csstok.SelfTest()
	if verbose || len(cf) > 0 {
		fmt.Printf("csstok vs hand-derived CSS Syntax 3 cases: cases=%d failed=%d\n", cc, len(cf))
	}
	if len(cf) > 0 {
		rc = 2
		for _, f := range cf {
			fmt.Println("  FAIL", f)
		}
	}
	uc, up, uf := whaturl.SelfTest()
	if verbose || len(uf) > 0 {
		fmt.Printf("whaturl vs WPT urltestdata.json: cases=%d passed=%d failed=%d\n", uc, up, len(uf))
	}
	if len(uf) > 0 || uc < 500 {
		rc = 2
		for i, f := range uf {
			if i < 25 {
				fmt.Println("  FAIL", f)
			}
		}
	}
	return rc
}
