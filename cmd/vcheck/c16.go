package main

import (
	"encoding/json"
	"fmt"
	"strings"
	"sync/atomic"

	"github.com/google/safehtml"

	"verif/internal/core"
	"verif/internal/enum"
	"verif/internal/oracle/csstok"
)

var c16Styles = []safehtml.Style{
	{},
	safehtml.StyleFromConstant("color:red;"),
	safehtml.StyleFromProperties(safehtml.StyleProperties{FontFamily: []string{"a;}b{"}, Width: "1px"}),
	safehtml.StyleFromConstant("background:url('x');content:\"}\";"),
}

func init() {
	register("C16", "exploration", checkC16)
	replayers["C16"] = func(raw json.RawMessage) (bool, string) {
		var in struct {
			Selector string
			Style    int
		}
		json.Unmarshal(raw, &in)
		cl, _, what := c16Judge(in.Selector, c16Styles[in.Style])
		ss, err := safehtml.CSSRule(in.Selector, c16Styles[in.Style])
		return cl != "", fmt.Sprintf("CSSRule(%q, %q) = %q, %v; %s %s", in.Selector, c16Styles[in.Style].String(), ss.String(), err, cl, what)
	}
}

func rawOf(ts []csstok.Token) string {
	var b strings.Builder
	for _, t := range ts {
		b.WriteString(t.Raw)
	}
	return b.String()
}

func c16Judge(sel string, style safehtml.Style) (string, string, string) {
	ss, err := safehtml.CSSRule(sel, style)
	if err != nil {
		if ss.String() != "" {
			return "error-value", "", "error returned together with a non-zero StyleSheet"
		}
		return "", "", ""
	}
	out := ss.String()
	if out != sel+"{"+style.String()+"}" {
		return "shape", "", fmt.Sprintf("result %q is not selector{style}", out)
	}
	if strings.IndexByte(sel, '<') >= 0 {
		return "selector-token", "<", "accepted selector contains '<'"
	}
	// the selector on its own, as the tokenizer sees it
	for _, t := range csstok.Tokenize(sel) {
		bad := ""
		switch t.Kind {
		case csstok.LBrace, csstok.RBrace, csstok.Semicolon, csstok.AtKeyword, csstok.CommentTok, csstok.BadString, csstok.BadURL, csstok.CDO:
			bad = t.Kind.String()
		case csstok.Delim:
			if t.Value == "@" || t.Value == "<" {
				bad = "delim " + t.Value
			}
		}
		if bad == "" && t.Unterminated {
			bad = "unterminated " + t.Kind.String()
		}
		if bad != "" {
			return "selector-token", bad, fmt.Sprintf("accepted selector contributes a %s token (%q)", bad, t.Raw)
		}
	}
	if pr := csstok.Problems(csstok.Tokenize(sel)); len(pr) > 0 {
		return "selector-token", pr[0], fmt.Sprintf("accepted selector has %v", pr)
	}
	sheet := csstok.ParseStylesheet(out)
	if len(sheet.Errors) > 0 {
		return "stylesheet", "parse-error", fmt.Sprintf("stylesheet parse errors %v", sheet.Errors)
	}
	if len(sheet.Rules) != 1 || sheet.Rules[0].At || sheet.Rules[0].Block == nil || !sheet.Rules[0].Block.Closed {
		return "stylesheet", "rule-count", fmt.Sprintf("a CSS parser sees %d rules, expected exactly one closed qualified rule", len(sheet.Rules))
	}
	rule := sheet.Rules[0]
	// Leading whitespace and "-->" are skipped by "consume a list of rules" at the top level, trailing
	// whitespace belongs to the prelude: compare modulo those (harmless, and not among the listed tokens).
	selToks := csstok.Tokenize(sel)
	for len(selToks) > 0 && (selToks[0].Kind == csstok.Whitespace || selToks[0].Kind == csstok.CDC) {
		selToks = selToks[1:]
	}
	if got, want := rawOf(csstok.Flatten(rule.Prelude)), rawOf(selToks); got != want {
		return "stylesheet", "prelude", fmt.Sprintf("prelude is %q, expected the selector %q", got, want)
	}
	if got, want := rawOf(csstok.Flatten(rule.Block.Children)), csstok.Preprocess(style.String()); got != want {
		return "stylesheet", "block", fmt.Sprintf("block holds %q, expected the style %q", got, want)
	}
	return "", "", ""
}

func checkC16(r *core.Run) {
	var evals, accepted int64
	eval := func(sel string) {
		for si := range c16Styles {
			atomic.AddInt64(&evals, 1)
			if p, msg := core.Try(func() { safehtml.CSSRule(sel, c16Styles[si]) }); p {
				r.Witness("panic", "", sel, fmt.Sprintf("CSSRule(%s) panicked: %s", core.Q(sel), msg), map[string]interface{}{"Selector": sel, "Style": si})
				break
			}
			if _, err := safehtml.CSSRule(sel, c16Styles[si]); err == nil {
				atomic.AddInt64(&accepted, 1)
			}
			if cl, discr, what := c16Judge(sel, c16Styles[si]); cl != "" {
				ss, _ := safehtml.CSSRule(sel, c16Styles[si])
				r.Witness(cl, discr, sel, fmt.Sprintf("CSSRule(%s, %s)=%s: %s", core.Q(sel), core.Q(c16Styles[si].String()), core.Q(ss.String()), what),
					map[string]interface{}{"Selector": sel, "Style": si})
				break
			}
		}
	}
	// hidden state between calls (runs first, sequentially)
	var items []pairItem
	for _, sel := range []string{"a", "", "a b", "a[b=\"c\"]", "a[b='c']", "a[b=\"}\"]", "a{", "a}", "a;", "@a", "a<b", "a\\{", "a(", "a)", "a[(])", "a:not(b)", "url(x)", "Url(x)", "a,b", "a/*", "\"", "'", "a\nb",
		"[" + strings.Repeat("(", 65) + strings.Repeat(")", 65) + ")", strings.Repeat("a", 300), strings.Repeat("\"x\"", 100) + "{"} {
		for _, si := range []int{0, 1} {
			sel, si := sel, si
			items = append(items, pairItem{name: sel + "\x00" + fmt.Sprint(si), replay: map[string]interface{}{"Selector": sel, "Style": si}, judge: func() (cl, what string) {
				if pn, msg := core.Try(func() { cl, _, what = c16Judge(sel, c16Styles[si]) }); pn {
					return "panic", "panicked: " + msg
				}
				return cl, what
			}})
		}
	}
	pairLayer(r, items)
	alpha := []string{"a", " ", "\"", "'", "\\", "(", ")", "[", "]", "{", "}", ";", "@", "<", "/", "*", "\n", "\f", "\r", ",", ":", "=", "é", "\x00", "url(", "URL(", "Url(", "uRl(", "urL(", ".", "#", ">", "-", "^"}
	ln := 4
	if r.Thorough() {
		ln = 5
	}
	st := enum.Seqs(alpha, ln, func(s string, _ []int) { eval(s) })
	r.Set("layer_class_strings", fmt.Sprintf("%d symbols, length<=%d: %d selectors x %d styles", len(alpha), ln, st.States, len(c16Styles)))
	st2 := enum.Seqs(enum.Bytes256(), 2, func(s string, _ []int) { eval(s); eval("a[b=\"" + s + "\"]"); eval("a" + s + "b") })
	r.Set("layer_bytes", fmt.Sprintf("all byte strings length<=2 alone, inside a quoted attribute selector, between idents: %d", st2.States*3))
	// focused: strings/urls with one or two special symbols inside longer realistic selectors
	frames := []string{"a[b=%s]", "url(%s)", "a:not(%s)", "%s,b", "a %s{", "\"%s\"", "'%s'", "a[b='%s']c[d=\"%s\"]"}
	inner := []string{"", "a", "\"", "'", "\\", "\\\"", "\n", "\f", "\\\n", "{", "}", ")", "(", "]", "[", ";", "@", "/*", "*/", "x\"){}y{\"", "x'){}y{'"}
	var nf int64
	for _, f := range frames {
		for _, a := range inner {
			for _, b := range inner {
				s := strings.Replace(f, "%s", a+b, -1)
				eval(s)
				nf++
			}
		}
	}
	r.Set("layer_frames", nf)
	// nesting depth and length: every depth 0..300 of balanced and off-by-one bracket runs, long identifiers
	var nd int64
	for n := 0; n <= 300; n++ {
		o, c := strings.Repeat("(", n), strings.Repeat(")", n)
		for _, sel := range []string{"[" + o + c + ")", "(" + o + c + "]", "[" + o + c + "]", o + "a" + c, "a" + o + c + ")", strings.Repeat("[", n) + strings.Repeat("]", n) + "]",
			"[" + strings.Repeat(":not(", n) + "a" + c + ")", strings.Repeat("a", n) + "{", strings.Repeat("é", n) + "\"", strings.Repeat("\"x\"", n) + "{", "[a=\"" + strings.Repeat("b", n) + "\"]" + ";"} {
			eval(sel)
			nd++
		}
	}
	r.Set("layer_depth", fmt.Sprintf("11 selector shapes x every nesting depth / length 0..300: %d", nd))
	r.Set("evaluations", evals)
	r.Set("distinct_nontrivial", accepted)
	r.Set("rule", "exhaustive enumeration of selectors per layer x 4 styles from the checked constructors; non-trivial = CSSRule accepted the selector, so the single-rule clauses were evaluated on a real style sheet")
	for _, s := range []string{"a[b=\"}\"]", "url(x\"){}input[value^=a]{background:url(//evil/a)}z{\"y)", "a\\{"} {
		ss, err := safehtml.CSSRule(s, c16Styles[1])
		r.Sample(map[string]string{"selector": s, "result": ss.String(), "err": fmt.Sprint(err)})
	}
	r.Assume("oracle O4 (CSS Syntax 3 tokenizer/parser written from the spec) is correct")
}
