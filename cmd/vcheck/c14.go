package main

import (
	"encoding/json"
	"fmt"
	stdhtml "html"
	"regexp"
	"strings"
	"sync/atomic"

	"verif/internal/core"
	"verif/internal/oracle/htmltok"
	"verif/internal/oracle/rfc3986"
	"verif/internal/oracle/whaturl"
	"verif/internal/tmplx"
)

func init() {
	register("C14", "model_checking", checkC14)
	replayers["C14"] = func(raw json.RawMessage) (bool, string) {
		var in c14Replay
		json.Unmarshal(raw, &in)
		fs := c14Judge(in.Cell, in.Quote, in.Prefix, in.Data, in.HasData)
		return len(fs) > 0, fmt.Sprintf("%+v: %v", in, fs)
	}
}

type c14Replay struct {
	Cell    int
	Quote   string
	Prefix  string
	Data    string
	HasData bool
}

type c14Cell struct {
	name, open, attr, close string
	trurl                   bool
}

var c14Cells = []c14Cell{
	{"form-action(URL)", "<form ", "action", "></form>", false},
	{"a-href(TRURLOrURL)", "<a ", "href", ">x</a>", false},
	{"script-src(TRURL)", "<script ", "src", "></script>", true},
	{"link-icon-href(TRURLOrURL)", "<link rel=\"icon\" ", "href", ">", false},
	{"link-href(TRURL)", "<link ", "href", ">", true},
	{"img-src(TRURLOrURL)", "<img ", "src", ">", false},
}

var (
	c14PartialRef     = regexp.MustCompile(`&(?:[A-Za-z][A-Za-z0-9]*|#(?:[xX][0-9A-Fa-f]*|[0-9]*))?$`)
	c14PartialPercent = regexp.MustCompile(`%[0-9A-Fa-f]?$`)
	c14SchemePrefix   = regexp.MustCompile(`^[A-Za-z][A-Za-z0-9+.\-]*$`)
)

// c14MustReject: does the statement demand that this static prefix be rejected?
func c14MustReject(prefix string) (bool, string) {
	if prefix == "" {
		return false, ""
	}
	decoded := htmltok.DecodeRefs(prefix, true)
	for _, s := range []string{prefix, decoded} {
		for i := 0; i < len(s); i++ {
			if s[i] <= 0x20 || s[i] == 0x7F {
				return true, "contains whitespace or a control character (possibly as a character reference)"
			}
		}
	}
	if c14PartialRef.MatchString(prefix) {
		return true, "ends in a partial character reference"
	}
	if c14PartialPercent.MatchString(decoded) {
		return true, "ends in a partial percent escape"
	}
	if c14SchemePrefix.MatchString(decoded) {
		return true, "could still be completed into a scheme"
	}
	if whaturl.IsJavascript(decoded) {
		return true, "has the javascript scheme"
	}
	return false, ""
}

type c14Finding struct{ clause, discr, detail string }

func c14Program(cell int, q, prefix string) string {
	c := c14Cells[cell]
	return c.open + c.attr + "=" + q + prefix + "{{$.P0}}" + q + c.close
}

// unescapeLenient percent-decodes valid %XX triplets and leaves everything else alone.
func unescapeLenient(s string) string {
	var b []byte
	hexv := func(c byte) int {
		switch {
		case c >= '0' && c <= '9':
			return int(c - '0')
		case c|0x20 >= 'a' && c|0x20 <= 'f':
			return int(c|0x20-'a') + 10
		}
		return -1
	}
	for i := 0; i < len(s); i++ {
		if s[i] == '%' && i+2 < len(s) && hexv(s[i+1]) >= 0 && hexv(s[i+2]) >= 0 {
			b = append(b, byte(hexv(s[i+1])<<4|hexv(s[i+2])))
			i += 2
			continue
		}
		b = append(b, s[i])
	}
	return string(b)
}

func c14AttrValue(out, attr string) (string, bool) {
	res := tmplx.Tokenize(out, false)
	for _, t := range res.Tokens {
		if t.Type == htmltok.StartTag {
			for _, a := range t.Attrs {
				if a.Name == attr && !a.Dup {
					return a.Value, true
				}
			}
		}
	}
	return "", false
}

func c14Judge(cell int, q, prefix, data string, hasData bool) []c14Finding {
	var fs []c14Finding
	text := c14Program(cell, q, prefix)
	p, _ := tmplx.Prepare(text)
	if p == nil {
		return nil
	}
	probe := execOne(p, "z", false)
	rejected := probe.Kind == tmplx.Rejected || probe.Kind == tmplx.RejectedEnd || probe.Kind == tmplx.OtherError
	must, why := c14MustReject(prefix)
	decoded := htmltok.DecodeRefs(prefix, true)
	if !rejected && must {
		fs = append(fs, c14Finding{"prefix-not-rejected", why, fmt.Sprintf("program %s is accepted although its static prefix %s", core.Q(text), why)})
	}
	if !rejected && c14Cells[cell].trurl && prefix != "" && (!c13SafePrefix(decoded) || decoded == "/") {
		fs = append(fs, c14Finding{"trurl-prefix-not-rejected", "", fmt.Sprintf("program %s is accepted although %q does not fix the origin of a TrustedResourceURL", core.Q(text), decoded)})
	}
	if rejected || !hasData || prefix == "" || must {
		return fs
	}
	cf := c14Confine(cell, text, decoded, data, func(d string) (string, bool) {
		r := execOne(p, d, false)
		return r.Out, r.Kind == tmplx.OK
	})
	for i := range cf {
		// a '#' that only occurs as part of "&#" (an incomplete or invalid character reference) is a class of its own:
		// the known finding there must not hide prefixes that spell out their '?' or '#'
		if cf[i].clause == "query-not-fully-encoded" && cf[i].discr == "" && !strings.ContainsAny(strings.ReplaceAll(prefix, "&#", ""), "?#") {
			cf[i].discr = "delimiter-only-in-character-reference"
		}
	}
	return append(fs, cf...)
}

// c14Confine judges how data was interpolated after the (decoded) static prefix that is in effect.
func c14Confine(cell int, text, decoded, data string, exec func(string) (string, bool)) []c14Finding {
	var fs []c14Finding
	out, okx := exec(data)
	if !okx {
		return fs
	}
	r := struct{ Out string }{out}
	v, ok := c14AttrValue(r.Out, c14Cells[cell].attr)
	if !ok || !strings.HasPrefix(v, decoded) {
		return append(fs, c14Finding{"prefix-not-preserved", "", fmt.Sprintf("program %s with data %s: attribute value %s does not start with the static prefix %q (output %s)", core.Q(text), core.Q(data), core.Q(v), decoded, core.Q(r.Out))})
	}
	rest := v[len(decoded):]
	enc := rfc3986.Encode(data)
	switch {
	case strings.ContainsAny(decoded, "?#"):
		if rfc3986.LowerEscapes(rest) != enc {
			fs = append(fs, c14Finding{"query-not-fully-encoded", "", fmt.Sprintf("program %s with data %s: after a query/fragment prefix the data must be fully percent-encoded (%q), got %q", core.Q(text), core.Q(data), enc, rest)})
		}
	case c14Cells[cell].trurl:
		if rfc3986.LowerEscapes(rest) != enc {
			fs = append(fs, c14Finding{"trurl-not-fully-encoded", "", fmt.Sprintf("program %s with data %s: after a TrustedResourceURL prefix the data must be fully percent-encoded (%q), got %q", core.Q(text), core.Q(data), enc, rest)})
		}
		if ok, why := c13ContainedStatic(decoded, decoded, v); !ok {
			dd := ""
			if c13HasDotDot(data) {
				dd = "data-alone" // the data itself spells "..": not the known combination of a static '.' with a '.' of the data
			}
			fs = append(fs, c14Finding{"trurl-dotdot", dd, fmt.Sprintf("program %s with data %s: value %q: %s", core.Q(text), core.Q(data), v, why)})
		}
	default:
		for i := 0; i < len(rest); i++ {
			c := rest[i]
			if c <= 0x20 || c >= 0x7F || c == '"' || c == '\'' || c == '<' || c == '>' || c == '\\' || c == '`' && false {
				fs = append(fs, c14Finding{"not-normalized", core.Q(string([]byte{c})), fmt.Sprintf("program %s with data %s: interpolated part %q contains %q", core.Q(text), core.Q(data), rest, c)})
				break
			}
		}
		if unescapeLenient(rest) != unescapeLenient(data) {
			fs = append(fs, c14Finding{"normalization-changes-data", "", fmt.Sprintf("program %s with data %s: interpolated part %q does not percent-decode to the data", core.Q(text), core.Q(data), rest)})
		}
		// valid escapes are kept
		if againOut, okA := exec(rest); okA {
			if v2, ok := c14AttrValue(againOut, c14Cells[cell].attr); ok && v2 != v {
				fs = append(fs, c14Finding{"not-idempotent", "", fmt.Sprintf("program %s: normalising %q again gives %q", core.Q(text), rest, strings.TrimPrefix(v2, decoded))})
			}
		}
	}
	return fs
}

func checkC14(r *core.Run) {
	var programs, accepted, execs int64
	alpha := []string{"h", ":", "/", "?", "#", "&", "=", "%", "2", ".", "&amp;", "&#", "&#x", "&#58;", "&colon", "&Tab;", "&NewLine;", " ", "\t", "https://o/", "javascript", "mailto:", "data:", "&#37;", "&#x25;", ";", "&#x2f;", "\x7f", "&#0;", "&quest;", "&num;", "&#63;"}
	ln := 2
	if r.Thorough() {
		ln = 3
	}
	var prefixes []string
	{
		// breadth-first: all prefixes of fewer symbols come first
		level := []string{""}
		for d := 0; d <= ln; d++ {
			prefixes = append(prefixes, level...)
			var next []string
			if d < ln {
				for _, p := range level {
					for _, a := range alpha {
						next = append(next, p+a)
					}
				}
			}
			level = next
		}
	}
	nShort := len(prefixes)
	if r.Thorough() {
		// the prefixes of the largest length (the last |alpha|^ln ones) get the reduced data set
		n := 1
		for i := 0; i < ln; i++ {
			n *= len(alpha)
		}
		nShort = len(prefixes) - n
	}
	// realistic longer prefixes
	realistic := []string{"https://o/a/", "https://o/a/.", "https://o/a/%2e", "/p/", "/p/.", "//o/p/", "/p?q=", "/p?q=a&r=", "/p#f", "https://o/p?q=", "about:blank#", "/a/b/..", "/p/&amp;", "/p?a&amp;b=", "https://o/.&#37;2", "/p/&#x25;2", "/p/%2", "/p/%", "https://o/a/&#46;",
		"&#x;/", "/&#x;", "&#;/", "&#2#", "&#9/", "/a&#9", "java&#9script:", "&#x9/", "/&#1",
		// path prefixes spelled with character references (the raw text contains '#', ';', '&' although the URL has no query or fragment)
		"/static&#47;", "/a&#x2f;b/", "https://o/&#x6a;s/", "/a&#47;", "/a/&#x2e;", "/p&#47;q&#63;r=",
		// schemes without "//": their query and fragment are query and fragment all the same
		"mailto:a@b.example?subject=", "mailto:a@b.example?subject=x&amp;body=", "sms:+15550100?body=", "tel:+15550100#", "about:blank?q=", "ftp://h/p?q=", "MAILTO:a@b?cc=", "http:/p?q=", "https:p?q="}
	nReal := len(realistic)
	prefixes = append(prefixes, realistic...)
	var data []string
	for b := 0; b < 256; b++ {
		data = append(data, string([]byte{byte(b)}))
	}
	sp := []string{"\"", "'", "<", ">", "&", "=", "#", "?", "/", "\\", " ", "%", ".", ":", "\x00", "é"}
	for _, a := range sp {
		for _, b := range sp {
			data = append(data, a+b)
		}
	}
	data = append(data, "..", "%2e%2e", "%2E.", "%41", "%4", "%zz", "/x", "?a=b&c", "#f", "a/../b", "%", "%2", "a%2fb", "%%41", "%25", "x y", "javascript:alert(1)")
	// percent triplets around the hex-digit boundaries
	for b := 0; b < 256; b++ {
		for _, o := range []string{"0", "g", "\x10", "F", "@"} {
			data = append(data, "%"+string([]byte{byte(b)})+o, "%"+o+string([]byte{byte(b)}))
		}
	}
	quotes := []string{"\"", "'"}
	type job struct {
		cell int
		q    string
		pi   int
	}
	var jobs []job
	for ci := range c14Cells {
		for _, q := range quotes {
			for pi := range prefixes {
				jobs = append(jobs, job{ci, q, pi})
			}
		}
	}
	core.ParallelFor(len(jobs), func(i int) {
		if r.Expired() {
			return
		}
		j := jobs[i]
		prefix := prefixes[j.pi]
		atomic.AddInt64(&programs, 1)
		report := func(d string, has bool, fs []c14Finding) {
			for _, f := range fs {
				r.Witness(f.clause, c14Cells[j.cell].name+" "+f.discr, prefix+"\x00"+d, f.detail, c14Replay{j.cell, j.q, prefix, d, has})
			}
		}
		fs := c14Judge(j.cell, j.q, prefix, "", false)
		atomic.AddInt64(&execs, 1)
		report("", false, fs)
		// data layer only for accepted, non-empty prefixes
		text := c14Program(j.cell, j.q, prefix)
		p, _ := tmplx.Prepare(text)
		if p == nil || prefix == "" {
			return
		}
		if pr := execOne(p, "z", false); pr.Kind == tmplx.Rejected || pr.Kind == tmplx.RejectedEnd || pr.Kind == tmplx.OtherError {
			return
		}
		atomic.AddInt64(&accepted, 1)
		ds := data
		switch {
		case j.pi >= len(prefixes)-nReal:
			// realistic prefixes: all data layers
		case j.pi >= nShort:
			ds = append(append([]string{}, data[:256]...), data[256+len(sp)*len(sp):256+len(sp)*len(sp)+17]...) // longest generated prefixes: single bytes + curated
		case !r.Thorough():
			ds = data[:256+len(sp)*len(sp)+17] // percent-triplet layer only on the realistic prefixes in quick mode
		}
		for _, d := range ds {
			atomic.AddInt64(&execs, 1)
			report(d, true, c14Judge(j.cell, j.q, prefix, d, true))
		}
	})
	// prefixes chosen by (nested) conditionals: whatever prefix is in effect, the data must be confined accordingly
	cps := []string{"/s/", "/s?q=", "#", "/p#f", "", "/s/x"}
	cdata := []string{"a&b=c#d", "x y", "%41", "..", "a/b?c", "\"'<>"}
	var condProgs int64
	type cjob struct{ p1, p2, p3 string }
	var cjobs []cjob
	for _, p1 := range cps {
		for _, p2 := range cps {
			for _, p3 := range cps {
				cjobs = append(cjobs, cjob{p1, p2, p3})
			}
		}
	}
	core.ParallelFor(len(cjobs), func(i int) {
		j := cjobs[i]
		for _, shape := range []string{"{{if $.C}}%1{{else}}{{if $.C2}}%2{{else}}%3{{end}}{{end}}", "{{if $.C}}{{if $.C2}}%2{{else}}%3{{end}}{{else}}%1{{end}}"} {
			val := strings.NewReplacer("%1", j.p1, "%2", j.p2, "%3", j.p3).Replace(shape)
			for _, cell := range []int{1, 0} {
				cl := c14Cells[cell]
				text := cl.open + cl.attr + "=\"" + val + "{{$.P0}}\"" + cl.close
				atomic.AddInt64(&condProgs, 1)
				for _, c := range []bool{true, false} {
					for _, c2 := range []bool{true, false} {
						eff := j.p1
						if !c && strings.HasPrefix(shape, "{{if $.C}}%1") || c && !strings.HasPrefix(shape, "{{if $.C}}%1") {
							eff = j.p3
							if c2 {
								eff = j.p2
							}
						}
						if eff == "" {
							continue
						}
						p, _ := tmplx.Prepare(text)
						if p == nil {
							continue
						}
						for _, d := range cdata {
							atomic.AddInt64(&execs, 1)
							fs := c14Confine(cell, text, eff, d, func(x string) (string, bool) {
								rr := execOne2(p, x, c, c2)
								return rr.Out, rr.Kind == tmplx.OK
							})
							for _, f := range fs {
								r.Witness(f.clause, "conditional-prefix "+f.discr, text+"\x00"+d, f.detail+fmt.Sprintf(" (C=%v C2=%v, prefix in effect %q)", c, c2, eff), nil)
							}
						}
					}
				}
			}
		}
	})
	// loop bodies that move the URL into its query or fragment: the second iteration's data must be confined by the
	// prefix then in effect (an engine may also refuse such a template)
	var loopProgs int64
	for _, cell := range []int{1, 0, 2, 5} {
		cl := c14Cells[cell]
		for _, pre := range []string{"/p/", "/p?a=", "/p", "https://o/p/"} {
			for _, sep := range []string{"?", "#", "/", "&", "?x=", "&amp;", "&#63;", ""} {
				for _, body := range []string{"{{.}}" + sep, sep + "{{.}}"} {
					text := cl.open + cl.attr + "=\"" + pre + "{{range $.L}}" + body + "{{end}}\"" + cl.close
					loopProgs++
					p, _ := tmplx.Prepare(text)
					if p == nil {
						continue
					}
					dsep := stdhtml.UnescapeString(sep)
					for _, d := range cdata {
						dd := tmplx.Data{L: []interface{}{"a", d}}
						res := p.Exec(&dd)
						atomic.AddInt64(&execs, 1)
						if res.Kind != tmplx.OK {
							continue
						}
						v, ok := c14AttrValue(res.Out, cl.attr)
						sofar := pre + "a" + dsep
						if body != "{{.}}"+sep {
							sofar = pre + dsep + "a" + dsep
						}
						if !ok || !strings.HasPrefix(v, sofar) {
							continue // the first iteration is judged by the single-action cells
						}
						rest := v[len(sofar):]
						if body == "{{.}}"+sep {
							rest = strings.TrimSuffix(rest, dsep)
						}
						if strings.ContainsAny(sofar, "?#") && rfc3986.LowerEscapes(rest) != rfc3986.Encode(d) {
							r.Witness("query-not-fully-encoded", "loop-body-changes-url-part "+cl.name, text+"\x00"+d,
								fmt.Sprintf("program %s with L=[a %s]: value %q: the second iteration's data follows %q and must be fully percent-encoded (%q), got %q", core.Q(text), core.Q(d), v, sofar, rfc3986.Encode(d), rest), nil)
						}
					}
				}
			}
		}
	}
	// typed values after a prefix: once the static text has entered the query or fragment (or follows a TrustedResourceURL
	// prefix) no safehtml type is in its own context any more, so a typed value must come out like the same string
	var typedProgs int64
	for ci, cl := range c14Cells {
		for _, pre := range []string{"/p?q=", "/p#f-", "/p?a&amp;b=", "https://o/p?q=", "/p/"} {
			if !strings.ContainsAny(pre, "?#") && !cl.trurl {
				continue
			}
			text := cl.open + cl.attr + "=\"" + pre + "{{$.P0}}\"" + cl.close
			p, _ := tmplx.Prepare(text)
			if p == nil {
				continue
			}
			typedProgs++
			for _, d := range []string{"/home&role=admin#top", "a b", "%41", "x?y=z", "a/b", ".."} {
				plain := execOne(p, d, false)
				for _, t := range safeTypes {
					for ptr := 0; ptr < 2; ptr++ {
						var v interface{} = t.mk(d)
						if ptr == 1 {
							v = ptrTo(v)
						}
						tv := execOne(p, v, false)
						atomic.AddInt64(&execs, 1)
						if tv.Kind == tmplx.OK && (plain.Kind != tmplx.OK || tv.Out != plain.Out) {
							r.Witness("typed-value-after-prefix", c14Cells[ci].name+" "+t.name, text+"\x00"+d,
								fmt.Sprintf("program %s: %s value %s renders %s, the same string renders %s (kind %v)", core.Q(text), t.name, core.Q(d), core.Q(tv.Out), core.Q(plain.Out), plain.Kind), nil)
						}
					}
				}
			}
		}
	}
	// static text that must be rejected as a prefix stays rejectable when an action that may render nothing precedes it
	var afterAction int64
	for ci, cl := range c14Cells {
		for _, pre := range []string{"java", "javascript", "h", "jav&#97;", "x%", "x&am", "a b", "javascript:", "data"} {
			must, why := c14MustReject(pre)
			if !must {
				continue
			}
			for _, lead := range []string{"{{$.P1}}", "{{if $.C}}{{$.P1}}{{end}}", "{{range $.L}}{{.}}{{end}}", "{{with $.W}}{{.}}{{end}}", "{{$.P1}}{{$.P1}}"} {
				text := cl.open + cl.attr + "=\"" + lead + pre + "{{$.P0}}\"" + cl.close
				afterAction++
				p, _ := tmplx.Prepare(text)
				if p == nil {
					continue
				}
				d := tmplx.Data{P0: "zz", P1: ""}
				res := p.Exec(&d)
				atomic.AddInt64(&execs, 1)
				if res.Kind == tmplx.OK {
					r.Witness("prefix-not-rejected", c14Cells[ci].name+" after-empty-action", text, fmt.Sprintf("program %s is accepted (output %s) although the static text %q %s and the action before it can render nothing", core.Q(text), core.Q(res.Out), pre, why), nil)
				}
			}
		}
	}
	// one helper called after a path prefix and after a query prefix of the same attribute (in both orders): the
	// data of the query call site must be fully encoded whichever site was analysed first
	var sharedProgs int64
	for ci, cl := range c14Cells {
		for _, order := range []int{0, 1} {
			path := cl.open + cl.attr + "=\"/items/{{template \"hp\" $.P1}}\"" + cl.close
			query := cl.open + cl.attr + "=\"/s?next={{template \"hp\" $.P0}}\"" + cl.close
			text := `{{define "hp"}}{{.}}{{end}}` + path + " " + query
			if order == 1 {
				text = `{{define "hp"}}{{.}}{{end}}` + query + " " + path
			}
			sharedProgs++
			p, _ := tmplx.Prepare(text)
			if p == nil {
				continue
			}
			for _, d := range cdata {
				dd := tmplx.Data{P0: d, P1: "a"}
				res := p.Exec(&dd)
				atomic.AddInt64(&execs, 1)
				if res.Kind != tmplx.OK {
					continue
				}
				i := strings.Index(res.Out, "/s?next=")
				if i < 0 {
					continue
				}
				rest := res.Out[i+len("/s?next="):]
				if j := strings.IndexByte(rest, '"'); j >= 0 {
					rest = rest[:j]
				}
				rest = stdhtml.UnescapeString(rest)
				if !cl.trurl && rfc3986.LowerEscapes(rest) != rfc3986.Encode(d) {
					r.Witness("query-not-fully-encoded", "helper-shared-by-path-and-query "+c14Cells[ci].name, text+"\x00"+d,
						fmt.Sprintf("program %s with data %s: after the query prefix the data must be fully percent-encoded (%q), got %q (output %s)", core.Q(text), core.Q(d), rfc3986.Encode(d), rest, core.Q(res.Out)), nil)
				}
			}
		}
	}
	// an action after a recursive call: the recursion's base case has entered the query, so the data must be fully encoded
	// (or the template refused); the analyser may not treat it as if it still followed the prefix of the first call
	for ci, cl := range c14Cells {
		text := `{{define "r"}}{{if .}}{{template "r" (slice . 1)}}{{index . 0}}{{else}}?q={{end}}{{end}}` + cl.open + cl.attr + "=\"/p{{template \"r\" $.L}}\"" + cl.close
		sharedProgs++
		p, _ := tmplx.Prepare(text)
		if p == nil {
			continue
		}
		for _, d := range cdata {
			dd := tmplx.Data{L: []interface{}{d}}
			res := p.Exec(&dd)
			atomic.AddInt64(&execs, 1)
			if res.Kind != tmplx.OK {
				continue
			}
			i := strings.Index(res.Out, "/p?q=")
			if i < 0 {
				continue
			}
			rest := res.Out[i+len("/p?q="):]
			if j := strings.IndexByte(rest, '"'); j >= 0 {
				rest = rest[:j]
			}
			rest = stdhtml.UnescapeString(rest)
			if !cl.trurl && rfc3986.LowerEscapes(rest) != rfc3986.Encode(d) {
				r.Witness("query-not-fully-encoded", "action-after-recursive-call "+c14Cells[ci].name, text+"\x00"+d,
					fmt.Sprintf("program %s with data %s: the recursion has written ?q= before the data, which must be fully percent-encoded (%q), got %q (output %s)", core.Q(text), core.Q(d), rfc3986.Encode(d), rest, core.Q(res.Out)), nil)
			}
		}
	}
	r.Set("shared_helper_programs", sharedProgs)
	r.Set("prefix_after_action_programs", afterAction)
	r.Set("typed_after_prefix_programs", typedProgs)
	r.Set("loop_prefix_programs", loopProgs)
	r.Set("conditional_prefix_programs", condProgs)
	if r.Expired() {
		r.NotExhaustive("internal deadline reached")
	}
	r.Set("states", programs+condProgs)
	r.Set("transitions", execs)
	r.Set("traces_validated_against_impl", programs)
	r.Set("programs", programs)
	r.Set("programs_accepted_with_nonempty_prefix", accepted)
	r.Set("executions", execs)
	r.Set("space", fmt.Sprintf("%d URL cells x 2 quotings x %d static prefixes (all sequences of <=%d of %d symbols + 19 realistic ones) x %d data strings (every byte, pairs of 16 specials, percent triplets around hex boundaries, curated)", len(c14Cells), len(prefixes), ln, len(alpha), len(data)))
	r.Sample(map[string]string{"program": c14Program(1, "\"", "/p?q="), "data": "a&b=c#d"})
	r.Sample(map[string]string{"program": c14Program(2, "\"", "https://o/a/."), "data": "."})
	r.Assume("O1 extracts and character-reference-decodes the attribute value; O2 decides schemes; O5 is the percent-encoder and dot-segment resolver")
}
