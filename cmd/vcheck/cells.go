package main

import (
	"fmt"
	"sort"
	"strings"
	"sync"

	suc "github.com/google/safehtml/uncheckedconversions"

	"verif/internal/tmplx"
)

// Black-box classification of one sanitization cell: a program with exactly one slot (P0).

type typedMaker struct {
	name string
	mk   func(s string) interface{}
}

var safeTypes = []typedMaker{
	{"HTML", func(s string) interface{} { return suc.HTMLFromStringKnownToSatisfyTypeContract(s) }},
	{"Script", func(s string) interface{} { return suc.ScriptFromStringKnownToSatisfyTypeContract(s) }},
	{"Style", func(s string) interface{} { return suc.StyleFromStringKnownToSatisfyTypeContract(s) }},
	{"StyleSheet", func(s string) interface{} { return suc.StyleSheetFromStringKnownToSatisfyTypeContract(s) }},
	{"URL", func(s string) interface{} { return suc.URLFromStringKnownToSatisfyTypeContract(s) }},
	{"TrustedResourceURL", func(s string) interface{} { return suc.TrustedResourceURLFromStringKnownToSatisfyTypeContract(s) }},
	{"Identifier", func(s string) interface{} { return suc.IdentifierFromStringKnownToSatisfyTypeContract(s) }},
}

var enumWords = []string{"async", "auto", "ltr", "rtl", "eager", "lazy", "_blank", "_self", "_top", "_parent", "defer", "true",
	// other spellings of listed words: an enumerated context emits only the listed words themselves
	"LTR", "Rtl", "_BLANK", "_Self", "LAZY", "ASYNC", "Auto", "_blan\u212a", "ltr ", " ltr", "ltr\n", "TRUE", "Defer", "_blank _self"}

type cellObs struct {
	Class    string   // reject | HTML | Escaped | URL | TRURLOrURL | URLSet | Enum | Typed | NoOutput
	Typed    []string // for Typed: accepted safe types (sorted); for URL classes: types passed through unsanitized
	Words    []string // for Enum: accepted words
	Kind     tmplx.Kind
	Err      string
	PlainOut string // output with the benign probe
}

func (c cellObs) String() string {
	switch c.Class {
	case "Typed":
		return "Typed{" + strings.Join(c.Typed, ",") + "}"
	case "Enum":
		return "Enum{" + strings.Join(c.Words, ",") + "}"
	}
	return c.Class
}

const cellProbe = "zbq"

func execOne(p *tmplx.Prepared, v interface{}, c bool) tmplx.Result {
	d := tmplx.Data{P0: v, C: c, W: "stylesheet", L: []interface{}{1, 2}}
	return p.Exec(&d)
}

// execOne2 additionally fixes the second condition.
func execOne2(p *tmplx.Prepared, v interface{}, c, c2 bool) tmplx.Result {
	d := tmplx.Data{P0: v, C: c, C2: c2, W: "stylesheet", L: []interface{}{1, 2}}
	return p.Exec(&d)
}

// classifyCell runs the probes on program text (slot instantiated as {{$.P0}}).
func classifyCell(text string, c bool, c2 ...bool) cellObs {
	c2v := len(c2) > 0 && c2[0]
	p, pr := tmplx.Prepare(text)
	if p == nil {
		return cellObs{Class: "reject", Kind: pr.Kind, Err: fmt.Sprint(pr.Err)}
	}
	r0 := execOne2(p, cellProbe, c, c2v)
	switch r0.Kind {
	case tmplx.Rejected, tmplx.RejectedEnd, tmplx.OtherError, tmplx.Panicked:
		return cellObs{Class: "reject", Kind: r0.Kind, Err: fmt.Sprint(r0.Err)}
	}
	obs := cellObs{Kind: r0.Kind, PlainOut: r0.Out}
	hostile := "javascript:alert(1)"
	if r0.Kind == tmplx.OK {
		// plain strings accepted: which flavour?
		rh := execOne2(p, hostile, c, c2v)
		rm := execOne2(p, "<b>\"'&", c, c2v)
		switch {
		case rh.Kind == tmplx.OK && strings.Contains(rh.Out, "about:invalid"):
			obs.Class = "URL"
			// which typed values pass a javascript: URL through?
			for _, t := range safeTypes {
				rt := execOne2(p, t.mk(hostile), c, c2v)
				if rt.Kind == tmplx.OK && strings.Contains(rt.Out, "javascript:") {
					obs.Typed = append(obs.Typed, t.name)
				}
			}
			if len(obs.Typed) == 2 {
				obs.Class = "TRURLOrURL"
			}
			// srcset flavour: a second candidate is vetted separately
			rs := execOne2(p, "/a 1x, javascript:x 2x, /b", c, c2v)
			if rs.Kind == tmplx.OK && strings.Contains(rs.Out, "/b") && !strings.Contains(rs.Out, "javascript") {
				obs.Class = "URLSet"
			}
		case rm.Kind == tmplx.OK:
			obs.Class = "Escaped"
			rt := execOne2(p, safeTypes[0].mk("<b>"+cellProbe+"</b>"), c, c2v)
			if rt.Kind == tmplx.OK && strings.Contains(rt.Out, "<b>"+cellProbe+"</b>") {
				obs.Class = "HTML"
			}
			for _, t := range safeTypes[1:] {
				rt := execOne2(p, t.mk("<i>"+cellProbe), c, c2v)
				if rt.Kind == tmplx.OK && strings.Contains(rt.Out, "<i>"+cellProbe) {
					obs.Typed = append(obs.Typed, t.name) // unexpected raw pass-through
				}
			}
		default:
			obs.Class = "Escaped?"
		}
		return obs
	}
	// plain benign string refused at run time: typed-only or enum
	for _, w := range enumWords {
		if rw := execOne2(p, w, c, c2v); rw.Kind == tmplx.OK {
			obs.Words = append(obs.Words, w)
		}
	}
	if len(obs.Words) > 0 {
		obs.Class = "Enum"
		return obs
	}
	for _, t := range safeTypes {
		v := "zt"
		switch t.name {
		case "TrustedResourceURL", "URL":
			v = "/zt"
		}
		if rt := execOne2(p, t.mk(v), c, c2v); rt.Kind == tmplx.OK {
			obs.Typed = append(obs.Typed, t.name)
		}
	}
	sort.Strings(obs.Typed)
	if len(obs.Typed) > 0 {
		obs.Class = "Typed"
	} else {
		obs.Class = "NoOutput"
	}
	return obs
}

// Numeric values whose text comes from a String or Error method: a sanitizer that decides from the value's
// reflect.Kind ("numbers need no escaping") is wrong for them. The text is looked up by the number.
var kindReg struct {
	mu   sync.Mutex
	ids  map[string]int
	strs []string
}

func kindID(s string) int {
	kindReg.mu.Lock()
	defer kindReg.mu.Unlock()
	if kindReg.ids == nil {
		kindReg.ids = map[string]int{}
	}
	if id, ok := kindReg.ids[s]; ok {
		return id
	}
	kindReg.strs = append(kindReg.strs, s)
	kindReg.ids[s] = len(kindReg.strs) - 1
	return len(kindReg.strs) - 1
}

func kindText(id int) string {
	kindReg.mu.Lock()
	defer kindReg.mu.Unlock()
	if id < 0 || id >= len(kindReg.strs) {
		return ""
	}
	return kindReg.strs[id]
}

type intStr int

func (i intStr) String() string { return kindText(int(i)) }

type uintErr uint32

func (u uintErr) Error() string { return kindText(int(u)) }

type fltStr float64

func (f fltStr) String() string { return kindText(int(f)) }

// numericKinds are the names understood by bindNumeric.
var numericKinds = []string{"int-stringer", "uint-error", "float-stringer", "ptr-int-stringer"}

func bindNumeric(kind, s string) (interface{}, bool) {
	switch kind {
	case "int-stringer":
		return intStr(kindID(s)), true
	case "uint-error":
		return uintErr(kindID(s)), true
	case "float-stringer":
		return fltStr(kindID(s)), true
	case "ptr-int-stringer":
		v := intStr(kindID(s))
		return &v, true
	}
	return nil, false
}
