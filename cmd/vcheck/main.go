// Command vcheck runs one bounded-exhaustive check per property.
//
//	vcheck <ID> <quick|thorough>
//	vcheck selftest
//	vcheck replay <file>
package main

import (
	"bytes"
	"fmt"
	"io"
	"os"
	"os/exec"
	"runtime/debug"
	"sort"
	"strings"

	"verif/internal/core"
)

type checkFn func(r *core.Run)

type checkDef struct {
	level string
	fn    checkFn
}

var checks = map[string]checkDef{}

func register(id, level string, fn checkFn) { checks[id] = checkDef{level, fn} }

func main() {
	if len(os.Args) < 2 {
		usage()
	}
	switch os.Args[1] {
	case "gen-policy":
		os.Exit(genPolicy())
	case "selftest":
		os.Exit(selftest(true))
	case "hist-obs":
		if len(os.Args) < 4 {
			usage()
		}
		os.Exit(histObsSubcommand(os.Args[2], os.Args[3]))
	case "replay":
		if len(os.Args) < 3 {
			usage()
		}
		os.Exit(replay(os.Args[2]))
	case "list":
		var ids []string
		for id := range checks {
			ids = append(ids, id)
		}
		sort.Strings(ids)
		for _, id := range ids {
			fmt.Println(id)
		}
		return
	}
	id := os.Args[1]
	tier := "quick"
	if len(os.Args) > 2 {
		tier = os.Args[2]
	}
	if t := os.Getenv("VERIF_TIER"); t != "" && len(os.Args) <= 2 {
		tier = t
	}
	def, ok := checks[id]
	if !ok {
		fmt.Fprintln(os.Stderr, "unknown check", id)
		os.Exit(2)
	}
	// C05-C08 drive the analyser over recursive template sets. Unbounded recursion there does not panic: the Go
	// runtime aborts the whole process (stack overflow, out of memory). These checks therefore run in a child
	// process with a small stack limit; a child that dies without a verdict is a violation of C08 (the calls did not
	// finish) and a harness error for the others.
	if supervised[id] && os.Getenv("VCHECK_CHILD") == "" {
		os.Exit(supervise(id, tier, def.level))
	}
	if supervised[id] {
		debug.SetMaxStack(192 << 20)
	}
	r := core.NewRun(id, tier, def.level)
	def.fn(r)
	retainLayer(r) // results held by the caller stay what they were (string constructors; see retain.go)
	r.Finish()
}

var supervised = map[string]bool{"C05": true, "C06": true, "C07": true, "C08": true}

func supervise(id, tier, level string) int {
	// address-space limit: a runaway analysis ends with "out of memory" in seconds instead of exhausting the machine
	cmd := exec.Command("sh", append([]string{"-c", `ulimit -v 12000000 2>/dev/null; exec "$0" "$@"`}, os.Args...)...)
	cmd.Env = append(os.Environ(), "VCHECK_CHILD=1")
	var tail bytes.Buffer
	var verdict verdictSeen
	verdict.want = []byte(id + " " + tier + ": violations=")
	cmd.Stdout = io.MultiWriter(os.Stdout, &verdict)
	cmd.Stderr = io.MultiWriter(os.Stderr, &limitedTail{buf: &tail})
	err := cmd.Run()
	code := 0
	if ee, ok := err.(*exec.ExitError); ok {
		code = ee.ExitCode()
	} else if err != nil {
		code = -1
	}
	if (code == 0 || code == 1 || code == 2) && (verdict.seen || !bytes.Contains(tail.Bytes(), []byte("fatal error:"))) {
		return code
	}
	// the child was aborted by the runtime or killed
	msg := tail.String()
	line := "child process ended with status " + fmt.Sprint(code)
	for _, l := range strings.Split(msg, "\n") {
		if strings.HasPrefix(l, "fatal error:") || strings.HasPrefix(l, "runtime: goroutine stack exceeds") || strings.HasPrefix(l, "panic:") {
			line = l
			break
		}
	}
	r := core.NewRun(id, tier, level)
	r.NotExhaustive("the exploration was aborted with the process")
	if id == "C08" {
		if len(msg) > 1500 {
			msg = msg[:1500]
		}
		r.Witness("process-aborted", "", line, "the checking process was aborted while it drove the library (unbounded recursion or memory use inside a call): "+line+"\n"+msg, nil)
	} else {
		r.HarnessError("the checking process was aborted: %s", line)
	}
	r.Finish()
	return 0
}

// verdictSeen notes whether the child printed its summary line.
type verdictSeen struct {
	want []byte
	seen bool
	last []byte
}

func (v *verdictSeen) Write(p []byte) (int, error) {
	v.last = append(v.last, p...)
	if bytes.Contains(v.last, v.want) {
		v.seen = true
	}
	if len(v.last) > 4096 {
		v.last = v.last[len(v.last)-512:]
	}
	return len(p), nil
}

// limitedTail keeps the first 64 KiB written to it.
type limitedTail struct{ buf *bytes.Buffer }

func (l *limitedTail) Write(p []byte) (int, error) {
	if room := 64<<10 - l.buf.Len(); room > 0 {
		if len(p) < room {
			room = len(p)
		}
		l.buf.Write(p[:room])
	}
	return len(p), nil
}

func usage() {
	fmt.Fprintln(os.Stderr, "usage: vcheck <ID> <quick|thorough> | selftest | replay <file> | list")
	os.Exit(2)
}
