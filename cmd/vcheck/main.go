// Command vcheck runs one bounded-exhaustive check per property.
//
//	vcheck <ID> <quick|thorough>
//	vcheck selftest
//	vcheck replay <file>
package main

import (
	"fmt"
	"os"
	"sort"

	"verif/internal/core"
)

type checkFn func(r *core.Run)

type checkDef struct {
	level string
	fn    checkFn
}

var checks = map[string]checkDef{}

func register(id, level string, fn checkFn) { checks[id] = checkDef{level, fn} }

func main() {
	if len(os.Args) < 2 {
		usage()
	}
	switch os.Args[1] {
	case "gen-policy":
		os.Exit(genPolicy())
	case "selftest":
		os.Exit(selftest(true))
	case "hist-obs":
		if len(os.Args) < 4 {
			usage()
		}
		os.Exit(histObsSubcommand(os.Args[2], os.Args[3]))
	case "replay":
		if len(os.Args) < 3 {
			usage()
		}
		os.Exit(replay(os.Args[2]))
	case "list":
		var ids []string
		for id := range checks {
			ids = append(ids, id)
		}
		sort.Strings(ids)
		for _, id := range ids {
			fmt.Println(id)
		}
		return
	}
	id := os.Args[1]
	tier := "quick"
	if len(os.Args) > 2 {
		tier = os.Args[2]
	}
	if t := os.Getenv("VERIF_TIER"); t != "" && len(os.Args) <= 2 {
		tier = t
	}
	def, ok := checks[id]
	if !ok {
		fmt.Fprintln(os.Stderr, "unknown check", id)
		os.Exit(2)
	}
	r := core.NewRun(id, tier, def.level)
	def.fn(r)
	r.Finish()
}

func usage() {
	fmt.Fprintln(os.Stderr, "usage: vcheck <ID> <quick|thorough> | selftest | replay <file> | list")
	os.Exit(2)
}
