package main

import (
	"encoding/json"
	"errors"
	"fmt"
	"math"
	"reflect"
	"strings"
	"sync/atomic"

	"verif/internal/core"

	"verif/internal/oracle/ivalid"
)

func init() {
	register("C17", "exploration", checkC17)
	replayers["C17"] = func(raw json.RawMessage) (bool, string) {
		var in struct {
			Site int
			Data string
		}
		json.Unmarshal(raw, &in)
		for _, d := range c17Data(2) {
			if d.desc == in.Data {
				cl, what := c17Judge(in.Site, d)
				return cl != "", fmt.Sprintf("name=%q data=%s: %s %s", scriptNameSites[in.Site].name, d.desc, cl, what)
			}
		}
		return false, "data case not found"
	}
}

type c17datum struct {
	desc      string
	v         interface{}
	encodable bool
	want      interface{} // expected generic JSON value (as decoded by encoding/json), when encodable
}

type jm string // json.Marshaler returning its text verbatim

func (j jm) MarshalJSON() ([]byte, error) { return []byte(j), nil }

type tm string // encoding.TextMarshaler

func (t tm) MarshalText() ([]byte, error) { return []byte(t), nil }

// named scalar types with marshalers
type lvlT int

func (l lvlT) MarshalText() ([]byte, error) {
	if l == 7 {
		return nil, errors.New("no text")
	}
	return []byte("<high>"), nil
}

type flagJ uint8

func (flagJ) MarshalJSON() ([]byte, error) { return []byte(`{"set":false}`), nil }

type boolJ bool

func (boolJ) MarshalJSON() ([]byte, error) { return []byte(`"<yes>"`), nil }

type strJ string

func (s strJ) MarshalJSON() ([]byte, error) { return json.Marshal([]string{"<", string(s)}) }

type fltT float64

func (fltT) MarshalText() ([]byte, error) { return []byte("</script>"), nil }

type jmErr struct{}

func (jmErr) MarshalJSON() ([]byte, error) { return nil, errors.New("no") }

type cyc struct{ P *cyc }

type jmPanic struct{}

func (jmPanic) MarshalJSON() ([]byte, error) { panic("marshaler panics") }

// c17coerce is what a JSON string can hold: invalid UTF-8 bytes become U+FFFD.
func c17coerce(s string) string { return ivalid.Encode(ivalid.Decode(s)) }

func c17Strings(n int) []string {
	alpha := []string{"a", "<", ">", "&", "\"", "\\", "/", "\u2028", "\u2029", "\x00", "\x80", "</script>", "<!--", "]]>", "'", "\n", "\x7f", "\xe2\x80", "\U0001F44D", "\u00e9", "\uffff", "\ufeff"}
	var out []string
	var rec func(p string, d int)
	rec = func(p string, d int) {
		out = append(out, p)
		if d == 0 {
			return
		}
		for _, a := range alpha {
			rec(p+a, d-1)
		}
	}
	rec("", n)
	return out
}

func c17Data(strLen int) []c17datum {
	var out []c17datum
	add := func(desc string, v interface{}, enc bool, want interface{}) {
		out = append(out, c17datum{desc, v, enc, want})
	}
	for _, s := range c17Strings(strLen) {
		add("string:"+core.Q(s), s, true, c17coerce(s))
	}
	short := c17Strings(1)
	add("nil", nil, true, nil)
	add("true", true, true, true)
	add("int", 42, true, float64(42))
	add("float", -1.5e300, true, -1.5e300)
	add("bigint", int64(1)<<62, true, float64(int64(1)<<62))
	for _, a := range short {
		for _, b := range short {
			add("slice:"+core.Q(a)+","+core.Q(b), []string{a, b}, true, []interface{}{c17coerce(a), c17coerce(b)})
			if c17coerce(a) != "" || true {
				add("map:"+core.Q(a)+":"+core.Q(b), map[string]string{a: b}, true, map[string]interface{}{c17coerce(a): c17coerce(b)})
			}
			add("struct:"+core.Q(a)+","+core.Q(b), struct {
				A string `json:"<k>"`
				B []byte
				C interface{}
			}{a, nil, []interface{}{b}}, true, map[string]interface{}{"<k>": c17coerce(a), "B": nil, "C": []interface{}{c17coerce(b)}})
		}
		add("textmarshaler:"+core.Q(a), tm(a), true, c17coerce(a))
		add("textmarshaler-key:"+core.Q(a), map[tm]int{tm(a): 1}, true, map[string]interface{}{c17coerce(a): float64(1)})
		add("ptr:"+core.Q(a), &a, true, c17coerce(a))
		add("bytes:"+core.Q(a), []byte(a), true, nil) // base64: only alphabet clause applies
		out[len(out)-1].want = c17skip{}
	}
	// json.Marshaler / RawMessage returning hostile but valid JSON
	for _, a := range short {
		if !json.Valid([]byte("\"" + a + "\"")) {
			continue
		}
		q := "\"" + a + "\""
		var w interface{}
		json.Unmarshal([]byte(q), &w)
		add("marshaler-valid:"+core.Q(q), jm(q), true, w)
		add("rawmessage-valid:"+core.Q(q), json.RawMessage(q), true, w)
		add("rawmessage-nested:"+core.Q(q), map[string]interface{}{"k": json.RawMessage("{ \"x\" : [" + q + "] }")}, true, map[string]interface{}{"k": map[string]interface{}{"x": []interface{}{w}}})
		add("rawmessage-ptr:"+core.Q(q), func() *json.RawMessage { r := json.RawMessage(" " + q + " "); return &r }(), true, w)
	}
	// invalid JSON from marshalers, unencodable values
	for _, bad := range []string{"", "<", "</script>", "{", "\"<", "a", "1 2", "\"\x00\""} {
		add("marshaler-invalid:"+core.Q(bad), jm(bad), false, nil)
		add("rawmessage-invalid:"+core.Q(bad), json.RawMessage(bad), false, nil)
	}
	// named scalar types with their own marshalers (a fast path by reflect.Kind must not bypass them), numbers in odd clothes
	add("int-with-MarshalText", lvlT(1), true, "<high>")
	add("int-with-failing-MarshalText", lvlT(7), false, nil)
	add("uint8-with-MarshalJSON", flagJ(1), true, map[string]interface{}{"set": false})
	add("bool-with-MarshalJSON", boolJ(true), true, "<yes>")
	add("string-with-MarshalJSON", strJ("x"), true, []interface{}{"<", "x"})
	add("float-with-MarshalText", fltT(1.5), true, "</script>")
	add("ptr-to-int-with-MarshalText", func() *lvlT { v := lvlT(1); return &v }(), true, "<high>")
	add("map-with-int-marshaler-values", map[string]lvlT{"a": 1}, true, map[string]interface{}{"a": "<high>"})
	add("struct-embedding-marshaler", struct{ lvlT }{1}, true, "<high>")
	add("json.Number", json.Number("1e3"), true, float64(1000))
	add("json.Number-invalid", json.Number("<1"), false, nil)
	add("uint64-max", uint64(math.MaxUint64), true, float64(math.MaxUint64))
	add("int-keyed-map", map[int]string{-1: "<"}, true, map[string]interface{}{"-1": "<"})
	add("nil-ptr", (*int)(nil), true, nil)
	add("nil-slice-and-map", struct {
		A []int
		B map[string]int
	}{}, true, map[string]interface{}{"A": nil, "B": nil})
	add("float32", float32(0.1), true, 0.1) // the JSON value of a float32 is its shortest 32-bit representation
	add("negative-zero", math.Copysign(0, -1), true, math.Copysign(0, -1))
	add("chan", make(chan int), false, nil)
	add("func", func() {}, false, nil)
	add("nan", math.NaN(), false, nil)
	add("inf", math.Inf(1), false, nil)
	add("nested-nan", []interface{}{"<", math.NaN()}, false, nil)
	add("marshaler-error", jmErr{}, false, nil)
	add("map-bool-key", map[bool]int{true: 1}, false, nil)
	c := &cyc{}
	c.P = c
	add("cycle", c, false, nil)
	return out
}

type c17skip struct{}

func c17NameOK(n string) bool {
	if n == "" {
		return false
	}
	for i := 0; i < len(n); i++ {
		c := n[i]
		ok := c == '$' || c == '_' || c|0x20 >= 'a' && c|0x20 <= 'z' || i > 0 && c >= '0' && c <= '9'
		if !ok {
			return false
		}
	}
	return true
}

func c17Judge(site int, d c17datum) (string, string) {
	s := scriptNameSites[site]
	var sc interface{ String() string }
	var err error
	if p, msg := core.Try(func() {
		x, e := s.f(d.v)
		sc, err = x, e
	}); p {
		return "panic", "the call panicked: " + msg
	}
	out := sc.String()
	if err != nil {
		if out != "" {
			return "error-value", fmt.Sprintf("error %v returned together with non-zero Script %q", err, out)
		}
		return "", ""
	}
	if !c17NameOK(s.name) {
		return "name", fmt.Sprintf("succeeded (%q) although the name %q is not an ASCII identifier", out, s.name)
	}
	if !d.encodable {
		return "unencodable", fmt.Sprintf("succeeded (%q) although the data cannot be encoded", out)
	}
	pre, post := "var "+s.name+" = ", ";\n"+s.script
	if !strings.HasPrefix(out, pre) || !strings.HasSuffix(out, post) || len(out) < len(pre)+len(post) {
		return "frame", fmt.Sprintf("result %q is not \"var name = J;\\nscript\"", out)
	}
	j := out[len(pre) : len(out)-len(post)]
	for _, bad := range []string{"<", ">", "&", "\u2028", "\u2029"} {
		if strings.Contains(j, bad) {
			return "json-alphabet", fmt.Sprintf("JSON literal %q contains %q", j, bad)
		}
	}
	if !json.Valid([]byte(j)) {
		return "json-valid", fmt.Sprintf("literal %q is not a single JSON text", j)
	}
	if _, skip := d.want.(c17skip); !skip {
		var got interface{}
		if err := json.Unmarshal([]byte(j), &got); err != nil {
			return "json-valid", fmt.Sprintf("literal %q does not decode: %v", j, err)
		}
		if !reflect.DeepEqual(got, d.want) {
			return "json-roundtrip", fmt.Sprintf("literal %q decodes to %#v, expected %#v", j, got, d.want)
		}
	}
	return "", ""
}

func checkC17(r *core.Run) {
	var evals, succ int64
	sl := 2
	if r.Thorough() {
		sl = 3
	}
	data := c17Data(sl)
	eval := func(site int, d c17datum) {
		atomic.AddInt64(&evals, 1)
		core.Try(func() {
			if _, err := scriptNameSites[site].f(d.v); err == nil {
				atomic.AddInt64(&succ, 1)
			}
		})
		if cl, what := c17Judge(site, d); cl != "" {
			r.Witness(cl, "", scriptNameSites[site].name+"\x00"+d.desc, fmt.Sprintf("ScriptFromDataAndConstant(%s, %s, %s): %s", core.Q(scriptNameSites[site].name), d.desc, core.Q(scriptNameSites[site].script), what),
				map[string]interface{}{"Site": site, "Data": d.desc})
		}
	}
	// all data x 3 valid name sites (+ all scripts)
	var good []int
	for i, s := range scriptNameSites {
		if s.name == "ab" || s.name == "$_" {
			good = append(good, i)
		}
	}
	core.ParallelFor(len(data), func(i int) {
		for _, g := range good {
			eval(g, data[i])
		}
	})
	// all name sites x a few data
	few := []c17datum{data[0], data[1], data[3]}
	for _, d := range data {
		if d.desc == "nil" || d.desc == "chan" || strings.HasPrefix(d.desc, "map:\"<\"") {
			few = append(few, d)
		}
	}
	core.ParallelFor(len(scriptNameSites), func(i int) {
		for _, d := range few {
			eval(i, d)
		}
	})

	// hidden state: a call whose data makes encoding panic (recovered by the caller) or fail must not influence the next call
	var nseq int64
	for _, pre := range []interface{}{jmPanic{}, make(chan int), jm("<"), map[string]interface{}{"a": jmPanic{}}, []interface{}{"x", jmPanic{}}} {
		for i, d := range data {
			if i%7 != 0 && i > 60 {
				continue
			}
			for _, g := range good {
				core.Try(func() { scriptNameSites[g].f(pre) })
				nseq++
				atomic.AddInt64(&evals, 1)
				if cl, what := c17Judge(g, d); cl != "" {
					r.Witness(cl, "after-failed-call", scriptNameSites[g].name+"\x00"+d.desc, fmt.Sprintf("after a call with %T that panicked or failed, ScriptFromDataAndConstant(%s, %s): %s", pre, core.Q(scriptNameSites[g].name), d.desc, what), map[string]interface{}{"Site": g, "Data": d.desc})
				}
			}
		}
	}
	r.Set("layer_after_failed_call", nseq)
	// long strings (every length 0..300)
	var nlong int64
	for _, unit := range []string{"a", "\u00e9", "<", "\u2028", "\xff"} {
		pad := ""
		for k := 0; k <= 300; k++ {
			for _, core2 := range []string{"", "\u2028", "</script>", "\u2029x", "&"} {
				for _, v := range []string{pad + core2, core2 + pad} {
					eval(good[0], c17datum{"string:" + core.Q(v), v, true, c17coerce(v)})
					nlong++
				}
			}
			pad += unit
		}
	}
	r.Set("layer_long", nlong)
	r.Set("layer_data", fmt.Sprintf("%d data values (strings length<=%d over 18 symbols, composites with <=2 members, marshalers, raw messages, unencodable values) x %d valid name call sites", len(data), sl, len(good)))
	r.Set("layer_names", fmt.Sprintf("%d constant name call sites (all strings length<=3 over 8 symbols + extras) x %d data values", len(scriptNameSites), len(few)))
	r.Set("evaluations", evals)
	r.Set("distinct_nontrivial", succ)
	r.Set("rule", "exhaustive enumeration of the value grammar and of the generated constant name call sites; non-trivial = the call succeeded, so frame, alphabet, validity and round-trip clauses were evaluated")
	for _, k := range []int{5, 12, len(data) - 3} {
		sc, err := scriptNameSites[good[0]].f(data[k].v)
		r.Sample(map[string]string{"name": scriptNameSites[good[0]].name, "data": data[k].desc, "script": sc.String(), "err": fmt.Sprint(err)})
	}
	r.Assume("encoding/json's decoder is trusted to define 'the JSON value'; expected values are written down independently for every generated datum")
}
