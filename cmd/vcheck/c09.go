package main

import (
	"bytes"
	"context"
	"encoding/json"
	"fmt"
	"os"
	"os/exec"
	"path/filepath"
	"regexp"
	"sort"
	"strings"
	"sync"
	"time"

	"verif/internal/core"
)

func init() {
	register("C09", "model_checking", checkC09)
	replayers["C09"] = func(raw json.RawMessage) (bool, string) {
		var in struct {
			Scenario string
			Schedule []int8
			Kind     string
		}
		json.Unmarshal(raw, &in)
		dir := os.Getenv("VSCHED_DIR")
		if dir == "" {
			return false, "replay of a schedule needs the overlay build: run ./run.sh C09-replay <file>"
		}
		var parts []string
		for _, c := range in.Schedule {
			parts = append(parts, fmt.Sprint(c))
		}
		bin := "vsched"
		if in.Kind == "race" {
			bin = "vsched.race"
		}
		cmd := exec.Command(filepath.Join(dir, bin), "-scenario", in.Scenario, "-replay", strings.Join(parts, ","))
		cmd.Env = append(os.Environ(), "GORACE=halt_on_error=0")
		out, err := cmd.CombinedOutput()
		bad := err != nil || strings.Contains(string(out), "DATA RACE")
		return bad, string(out)
	}
}

type c09Report struct {
	Scenario        string  `json:"scenario"`
	Race            bool    `json:"race_build"`
	Bound           int     `json:"preemption_bound"`
	Schedules       int64   `json:"schedules"`
	Decisions       int64   `json:"decisions"`
	MaxPoints       int     `json:"max_points_per_execution"`
	DistinctVectors int     `json:"distinct_result_vectors"`
	SeqVectors      int     `json:"sequential_result_vectors"`
	ReplaysChecked  int     `json:"replays_checked_identical"`
	Capped          bool    `json:"capped"`
	PerBound        []int64 `json:"schedules_per_bound"`
	SampleSchedule  []int8  `json:"sample_schedule"`
	SampleVector    string  `json:"sample_vector"`
	WallS           float64 `json:"wall_s"`
	Violations      []struct {
		Kind     string   `json:"kind"`
		Schedule []int8   `json:"schedule"`
		Detail   string   `json:"detail"`
		Threads  []string `json:"threads"`
	} `json:"violations"`
	Races []struct {
		ScheduleIndex int64  `json:"schedule_index"`
		Schedule      []int8 `json:"schedule"`
		Text          string `json:"text"`
	} `json:"races"`
}

var raceFrame = regexp.MustCompile(`(?m)^  ([^\s]+\(\))\n`)

// raceKey: the innermost frames of the two conflicting accesses that are not runtime / sync / scheduler code.
func raceKey(text string) string {
	blocks := strings.Split(text, "\n\n")
	var fr []string
	for _, b := range blocks {
		if !(strings.Contains(b, " at 0x") && strings.Contains(b, "by goroutine")) && !strings.Contains(b, "by main goroutine") {
			continue
		}
		for _, m := range raceFrame.FindAllStringSubmatch(b+"\n", -1) {
			f := m[1]
			if strings.HasPrefix(f, "runtime.") || strings.HasPrefix(f, "sync.") || strings.HasPrefix(f, "sync/atomic.") || strings.Contains(f, "/verifsync.") {
				continue
			}
			fr = append(fr, f)
			break
		}
		if len(fr) == 2 {
			break
		}
	}
	sort.Strings(fr)
	return strings.Join(fr, " <-> ")
}

func checkC09(r *core.Run) {
	dir := os.Getenv("VSCHED_DIR")
	if dir == "" {
		r.HarnessError("VSCHED_DIR not set (run through ./run.sh C09 <tier>, which builds vsched with the overlay)")
		return
	}
	out, err := exec.Command(filepath.Join(dir, "vsched"), "-list").Output()
	if err != nil {
		r.HarnessError("vsched -list: %v", err)
		return
	}
	scs := strings.Fields(string(out))
	plainBound, raceBound, budget, free := 2, 2, 100, 300
	if r.Thorough() {
		plainBound, raceBound, budget, free = 3, 3, 1500, 3000
	}
	logDir, _ := os.MkdirTemp(dir, "racelog")
	type job struct {
		sc   string
		race bool
		free bool
		cold bool // a short free-running run whose only purpose is another first use in a fresh process
	}
	var jobs []job
	colds := 32
	if r.Thorough() {
		colds = 128
	}
	for _, s := range scs {
		jobs = append(jobs, job{s, false, false, false}, job{s, true, false, false}, job{s, true, true, false})
		for k := 0; k < colds; k++ {
			jobs = append(jobs, job{s, true, true, true})
		}
	}
	reports := make([]*c09Report, len(jobs))
	errs := make([]string, len(jobs))
	crashes := make([]string, len(jobs))
	var wg sync.WaitGroup
	sem := make(chan struct{}, core.Workers())
	// runJob runs one child; factor stretches its deadline (a child that missed its deadline is run a second time,
	// with a three times longer one, before the miss is believed: a loaded machine must not look like a deadlock)
	var runJob func(i int, j job, factor int)
	runJob = func(i int, j job, factor int) {
		{
			sem <- struct{}{}
			defer func() { <-sem }()
			bin, bound := "vsched", plainBound
			args := []string{"-scenario", j.sc}
			if j.race {
				bin, bound = "vsched.race", raceBound
			}
			if j.cold {
				args = append(args, "-free", "3")
			} else if j.free {
				args = append(args, "-free", fmt.Sprint(free))
			} else {
				args = append(args, "-bound", fmt.Sprint(bound), "-budget", fmt.Sprint(budget))
			}
			// the explorer detects deadlocks under its own scheduler; a free-running run that deadlocks for real never
			// returns, so every child gets a generous deadline (a run takes seconds)
			limit := time.Duration(budget+120) * time.Second
			if j.free {
				limit = 180 * time.Second
				if j.cold {
					limit = 60 * time.Second
				}
			}
			limit *= time.Duration(factor)
			ctx, cancel := context.WithTimeout(context.Background(), limit)
			defer cancel()
			cmd := exec.CommandContext(ctx, filepath.Join(dir, bin), args...)
			cmd.Env = os.Environ()
			if j.race {
				lp := filepath.Join(logDir, fmt.Sprintf("race%d", i))
				cmd.Env = append(cmd.Env, "GORACE=log_path="+lp+" halt_on_error=0", "VSCHED_RACE_LOG="+lp)
			}
			var stderr bytes.Buffer
			cmd.Stderr = &stderr
			out, err := cmd.Output()
			var rep c09Report
			if jerr := json.Unmarshal(lastLine(out), &rep); jerr != nil {
				if ctx.Err() == context.DeadlineExceeded {
					crashes[i] = fmt.Sprintf("no result within %v: the concurrent calls do not return (deadlock)", limit)
					return
				}
				if se := stderr.String(); strings.Contains(se, "fatal error:") || strings.Contains(se, "panic:") || strings.Contains(se, "goroutine ") {
					// the Go runtime aborted the process (concurrent map access, unrecovered panic in a goroutine of the library)
					first := se
					if k := strings.Index(se, "fatal error:"); k >= 0 {
						first = se[k:]
					} else if k := strings.Index(se, "panic:"); k >= 0 {
						first = se[k:]
					}
					if len(first) > 1500 {
						first = first[:1500]
					}
					crashes[i] = first
					return
				}
				errs[i] = fmt.Sprintf("%s %v: %v %v (%s)", bin, args, err, jerr, string(lastLine(out)))
				return
			}
			reports[i] = &rep
		}
	}
	for i, j := range jobs {
		wg.Add(1)
		go func(i int, j job) {
			defer wg.Done()
			runJob(i, j, 1)
		}(i, j)
	}
	wg.Wait()
	slow := 0
	for i, j := range jobs {
		if reports[i] == nil && strings.HasPrefix(crashes[i], "no result within") {
			slow++
			crashes[i] = ""
			wg.Add(1)
			go func(i int, j job) {
				defer wg.Done()
				runJob(i, j, 3)
			}(i, j)
		}
	}
	wg.Wait()
	os.RemoveAll(logDir)
	var schedules, decisions, replays int64
	distinct := 0
	var per []string
	for i, rep := range reports {
		if rep == nil && crashes[i] != "" {
			line := crashes[i]
			if k := strings.IndexByte(line, '\n'); k >= 0 {
				line = line[:k]
			}
			clause := "process-aborted"
			if strings.HasPrefix(line, "no result within") {
				clause, line = "deadlock", "free-running"
			}
			what := "the concurrent calls made the Go runtime abort the process: "
			if clause == "deadlock" {
				what = ""
			}
			r.Witness(clause, jobs[i].sc, line, fmt.Sprintf("scenario %s: %s%s", jobs[i].sc, what, crashes[i]), map[string]interface{}{"Scenario": jobs[i].sc, "Kind": "crash"})
			continue
		}
		if rep == nil {
			r.HarnessError("scheduler run failed: %s", errs[i])
			continue
		}
		j := jobs[i]
		mode := "plain"
		if j.race {
			mode = "race"
		}
		if j.free {
			mode = "free-running race"
		}
		if j.cold {
			mode = "free-running race, fresh process"
		}
		schedules += rep.Schedules
		decisions += rep.Decisions
		replays += int64(rep.ReplaysChecked)
		if rep.DistinctVectors > distinct {
			distinct = rep.DistinctVectors
		}
		if !j.cold {
			per = append(per, fmt.Sprintf("%s [%s] bound=%d schedules=%d per-preemption-count=%v max-points=%d distinct-results=%d/%d sequential capped=%v %.1fs", rep.Scenario, mode, rep.Bound, rep.Schedules, rep.PerBound, rep.MaxPoints, rep.DistinctVectors, rep.SeqVectors, rep.Capped, rep.WallS))
		}
		if rep.Capped {
			r.NotExhaustive(fmt.Sprintf("%s [%s]: time budget reached before preemption bound %d was completed", rep.Scenario, mode, rep.Bound))
		}
		if rep.SampleSchedule != nil && !j.free {
			r.Sample(map[string]interface{}{"scenario": rep.Scenario, "schedule": rep.SampleSchedule, "result_vector": rep.SampleVector})
		}
		for _, v := range rep.Violations {
			if v.Kind == "harness" {
				r.HarnessError("%s: %s", rep.Scenario, v.Detail)
				continue
			}
			discr := rep.Scenario
			r.Witness(v.Kind, discr, fmt.Sprint(v.Schedule), fmt.Sprintf("scenario %s (%s; threads %v), schedule %v: %s", rep.Scenario, mode, v.Threads, v.Schedule, v.Detail),
				map[string]interface{}{"Scenario": rep.Scenario, "Schedule": v.Schedule, "Kind": mode})
		}
		for _, rc := range rep.Races {
			key := raceKey(rc.Text)
			txt := rc.Text
			if len(txt) > 3000 {
				txt = txt[:3000]
			}
			r.Witness("data-race", key, rep.Scenario, fmt.Sprintf("scenario %s (%s), schedule #%d %v: the Go race detector reports a race between %s\n%s", rep.Scenario, mode, rc.ScheduleIndex, rc.Schedule, key, txt),
				map[string]interface{}{"Scenario": rep.Scenario, "Schedule": rc.Schedule, "Kind": "race"})
		}
	}
	r.Set("states", schedules)
	r.Set("transitions", decisions)
	r.Set("traces_validated_against_impl", schedules)
	r.Set("schedules_replayed_twice_identical", replays)
	r.Set("max_distinct_result_vectors_in_a_scenario", distinct)
	r.Set("runs", per)
	r.Set("children_rerun_with_a_longer_deadline", slow)
	r.Set("bounds", fmt.Sprintf("preemption bound %d (plain build), %d (-race build, race detector as per-schedule monitor), %d free-running -race executions per scenario as cross-check", plainBound, raceBound, free))
	r.Assume("schedule points: every nameSpace.mu Lock/Unlock (overlay shim), every Write on the output writer, every call entry, thread end; text/template's own RWMutexes are leaf critical sections with no schedule point inside")
	r.Assume("hand-offs use raw pipe syscalls that add no happens-before edges, so the race detector judges every explored schedule by the program's own synchronisation only; memory-model behaviours weaker than sequential consistency are not explored")
	if distinct < 2 {
		r.HarnessError("vacuous: no scenario produced more than one distinct result vector")
	}
}

func lastLine(b []byte) []byte {
	s := strings.TrimSpace(string(b))
	if i := strings.LastIndexByte(s, '\n'); i >= 0 {
		s = s[i+1:]
	}
	return []byte(s)
}
