package main

import (
	"encoding/json"
	"fmt"
	"strconv"
	"strings"
	"sync/atomic"

	"github.com/google/safehtml"

	"verif/internal/core"
	"verif/internal/enum"
	"verif/internal/oracle/srcset"
)

func init() {
	register("C12", "exploration", checkC12)
	replayers["C12"] = func(raw json.RawMessage) (bool, string) {
		var in struct{ Input string }
		json.Unmarshal(raw, &in)
		cl, what := c12Judge(in.Input)
		return cl != "", fmt.Sprintf("URLSetSanitized(%q) = %q; %s %s", in.Input, safehtml.URLSetSanitized(in.Input).String(), cl, what)
	}
}

func c12DescOK(d string) bool {
	if d == "" {
		return true
	}
	for i := 0; i < len(d); i++ {
		switch d[i] {
		case ' ', '\t', '\n', '\f', '\r', ',', '(', ')':
			return false
		}
	}
	if _, err := strconv.ParseFloat(d, 64); err == nil {
		return true
	}
	last := d[len(d)-1] | 0x20
	if last >= 'a' && last <= 'z' {
		if _, err := strconv.ParseFloat(d[:len(d)-1], 64); err == nil {
			return true
		}
	}
	return false
}

// earliest end position >= from at which item (or a %2c-decoded variant) occurs in s; -1 if none.
func c12Find(s string, from int, variants []string) int {
	best := -1
	for _, v := range variants {
		if v == "" {
			continue
		}
		if i := strings.Index(s[from:], v); i >= 0 {
			if e := from + i + len(v); best < 0 || e < best {
				best = e
			}
		}
	}
	return best
}

func c12Judge(s string) (string, string) {
	out := safehtml.URLSetSanitized(s).String()
	cands := srcset.Parse(out)
	if len(cands) == 0 {
		return "no-candidate", fmt.Sprintf("result %q has no image candidate (must be the innocuous URL)", out)
	}
	if again := safehtml.URLSetSanitized(out).String(); again != out {
		return "idempotent", fmt.Sprintf("sanitizing the result again gives %q", again)
	}
	if out == innocuousURL {
		return "", ""
	}
	pos := 0
	for _, c := range cands {
		if safehtml.URLSanitized(c.URL).String() != c.URL {
			return "unsafe-candidate", fmt.Sprintf("candidate URL %q of result %q is not one URLSanitized leaves unchanged", c.URL, out)
		}
		if c11JS(c.URL) {
			return "unsafe-candidate", fmt.Sprintf("candidate URL %q of result %q has the javascript scheme", c.URL, out)
		}
		if len(c.Descriptors) > 1 {
			return "descriptor", fmt.Sprintf("candidate %q has %d descriptors %q", c.URL, len(c.Descriptors), c.Descriptors)
		}
		for _, d := range c.Descriptors {
			if !c12DescOK(d) {
				return "descriptor", fmt.Sprintf("descriptor %q of candidate %q is not a number plus at most one letter", d, c.URL)
			}
		}
		// copied in order from s (a glued comma may have been percent-encoded)
		u := c.URL
		vars := []string{u}
		u = strings.Replace(u, "%2C", "%2c", -1) // the escape's hex case is not part of the statement
		vars = []string{c.URL, u}
		if strings.HasPrefix(u, "%2c") {
			vars = append(vars, ","+u[3:])
		}
		if strings.HasSuffix(u, "%2c") && len(u) >= 3 {
			vars = append(vars, u[:len(u)-3]+",")
			if strings.HasPrefix(u, "%2c") && len(u) >= 6 {
				vars = append(vars, ","+u[3:len(u)-3]+",")
			}
		}
		if u == "%2c" {
			vars = append(vars, ",")
		}
		e := c12Find(s, pos, vars)
		if e < 0 {
			return "not-copied", fmt.Sprintf("candidate URL %q of result %q does not occur (in order) in the input", c.URL, out)
		}
		pos = e
		for _, d := range c.Descriptors {
			e := c12Find(s, pos, []string{d})
			if e < 0 {
				return "not-copied", fmt.Sprintf("descriptor %q of result %q does not occur (in order) in the input", d, out)
			}
			pos = e
		}
	}
	return "", ""
}

func checkC12(r *core.Run) {
	var evals, nontriv int64
	eval := func(s string) {
		atomic.AddInt64(&evals, 1)
		if p, msg := core.Try(func() { safehtml.URLSetSanitized(s) }); p {
			r.Witness("panic", "", s, fmt.Sprintf("URLSetSanitized(%s) panicked: %s", core.Q(s), msg), map[string]string{"Input": s})
			return
		}
		out := safehtml.URLSetSanitized(s).String()
		if out != s {
			atomic.AddInt64(&nontriv, 1)
		}
		if cl, what := c12Judge(s); cl != "" {
			r.Witness(cl, "", s, fmt.Sprintf("URLSetSanitized(%s)=%s: %s", core.Q(s), core.Q(out), what), map[string]string{"Input": s})
		}
	}
	// hidden state between calls (runs first, sequentially)
	pairLayer(r, strPairItems([]string{"", "a", "/a", "/a 1x", "/a 1x, /b 2x", "/a 1x,/b", "a,b", "a, b", ",", " ", "javascript:x", "javascript:x 1x", "/a 1x, javascript:x 2x", "javascript:x, /a",
		"JAVASCRIPT:x 2x", "https://o/p 100w", "https://o/p 1x, https://o/q 2x", "data:x", "/a 1x 2x", "/a x", "/a 1xx", "/a\f1x", "\x00javascript:x", "a:b", "a/b:c 1x", "&", "/a,", ",/a",
		"\u0130javascript:x", "/\u0130 1x, javascript:x", strings.Repeat("/a 1x, ", 40) + "javascript:x", strings.Repeat("a", 130) + ":x 1x", "/" + strings.Repeat("a", 130) + ", javascript:x"}, c12Judge))
	// lists of three and four whole candidates: which ones survive and how the survivors are joined
	urls := []string{"a.png", "javascript:alert(1)", "https://o/c.png", "x:y", ""}
	descs := []string{"", " 1x", " 2x", " zz", " 100w", " 1x 2x"}
	seps := []string{",", " , ", ", ", " ,"}
	var cands []string
	for _, u := range urls {
		for _, d := range descs {
			cands = append(cands, u+d)
		}
	}
	var nlist int64
	core.ParallelFor(len(cands), func(i int) {
		for _, b := range cands {
			for _, c := range cands {
				for _, sp := range seps {
					eval(cands[i] + sp + b + sp + c)
					atomic.AddInt64(&nlist, 1)
				}
				if r.Thorough() {
					for _, d := range cands {
						eval(cands[i] + " , " + b + "," + c + ", " + d)
						atomic.AddInt64(&nlist, 1)
					}
				}
			}
		}
	})
	r.Set("layer_candidate_lists", fmt.Sprintf("all lists of 3 (thorough: and 4) candidates over %d URLs x %d descriptors x %d separators: %d", len(urls), len(descs), len(seps), nlist))
	alpha := []string{"a", ",", " ", "\t", "\n", "\f", "\r", "\v", "(", ")", "1", "x", ".", "e", "_", "+", "-", "%", ":", "&", "w", "javascript:alert(1)", "https://o/p", "%2c", "0x1p-2", "inf", "2x"}
	ln := 4
	if r.Thorough() {
		ln = 6
	}
	st := enum.Seqs(alpha, ln, func(s string, _ []int) { eval(s) })
	r.Set("layer_class_strings", fmt.Sprintf("%d symbols, length<=%d: %d", len(alpha), ln, st.States))
	bl := 2
	if r.Thorough() {
		bl = 3
	}
	st2 := enum.Seqs(enum.Bytes256(), bl, func(s string, _ []int) {
		eval(s)
		eval("/a" + s + "1x,javascript:alert(1)")
		eval("/a " + s + ",/b")
		eval("javascript:x" + s + "2x")
	})
	r.Set("layer_bytes", fmt.Sprintf("all byte strings length<=%d alone and in 3 candidate contexts: %d", bl, st2.States*4))
	nl := enum.Long([]string{"a", "x", "\u00e9", "\u212a", "\u0130", "\u023a", "\xff", "%6a", " ", ","}, []string{" , javascript:alert(1)", "javascript:alert(1) 2x", " 1x, javascript:x", ":b 1x", "&colon;alert(1) 2x", "/ok.png 1x", ", /b 2x ,", "_a:b"}, 300, func(s string) { eval(s) })
	r.Set("layer_long", fmt.Sprintf("10 padding units x 8 cores x every padding length 0..300 x 3 placements: %d", nl))
	r.Set("evaluations", evals)
	r.Set("distinct_nontrivial", nontriv)
	r.Set("rule", "exhaustive enumeration per layer; non-trivial = URLSetSanitized(s) != s (a candidate was dropped, a comma encoded or separators rewritten)")
	for _, s := range []string{"/a\f1x,javascript:alert(1)", ",a, b 2x ,javascript:x 1x", "a,,b"} {
		r.Sample(map[string]string{"input": s, "output": safehtml.URLSetSanitized(s).String()})
	}
	r.Assume("oracle O3 (WHATWG srcset parser written from the spec) is correct; 'a number' is read leniently (anything strconv.ParseFloat accepts)")
}
