package main

import (
	"encoding/json"
	"fmt"
	"github.com/google/safehtml"
	suc "github.com/google/safehtml/uncheckedconversions"
	"os"
	"os/exec"
	"strings"
	"sync/atomic"

	"verif/internal/core"
	"verif/internal/hist"
)

// ---- shared history exploration ------------------------------------------------

type histFinding struct {
	clause, discr, detail string
}

type histReplay struct {
	Scenario string
	Ops      []hist.Op
}

var histScenarios = map[string]*hist.Scenario{}

func histData() []interface{} {
	return []interface{}{
		map[string]interface{}{"S": "<x>&\"'", "L": []string{"a", "b"}},
		map[string]interface{}{"S": "javascript:alert(1)", "L": []string{}},
	}
}

func renderOps(ops []hist.Op) string {
	var p []string
	for _, o := range ops {
		p = append(p, o.String())
	}
	return strings.Join(p, "; ")
}

// histJudgeLast runs the history, walks the model and judges the last op.
func histJudgeLast(sc *hist.Scenario, ops []hist.Op, guarded bool) ([]histFinding, *hist.Model, []hist.Obs, bool) {
	obs, err := hist.Run(sc, ops, guarded)
	if err != nil {
		return []histFinding{{"harness", "", "scenario does not initialise: " + err.Error()}}, nil, nil, false
	}
	m := hist.NewModel(sc.RootName)
	var fs []histFinding
	var last hist.Expect
	for i := range obs {
		o := ops[i]
		last = m.Step(o, obs[i])
	}
	n := len(obs) - 1
	if n < 0 {
		return nil, m, obs, true
	}
	o, ob := ops[n], obs[n]
	where := fmt.Sprintf("scenario %s, history [%s]", sc.Name, renderOps(ops[:n+1]))
	if ob.Timeout {
		return append(fs, histFinding{"hang", kindOf(o), where + ": the last call did not return within 90s"}), m, obs, false
	}
	if ob.Panic != "" {
		fs = append(fs, histFinding{"panic", panicClass(ob.Panic), where + ": the last call panicked: " + ob.Panic})
	}
	if last.MustErr && !ob.Err && ob.Panic == "" {
		cl := "parse-after-execute"
		if o.Kind == hist.Clone {
			cl = "clone-after-execute"
		}
		fs = append(fs, histFinding{cl, kindOf(o), where + ": the last call succeeded although the set had been executed"})
	}
	if o.Kind == hist.Exec && ob.Panic == "" {
		if ob.Err {
			if (o.Form == 1 || o.Form == 3) && !ob.ZeroHTML {
				fs = append(fs, histFinding{"nonzero-html-on-error", "", where + fmt.Sprintf(": error %q returned together with HTML %q", ob.ErrMsg, ob.Out)})
			}
			if ob.Analysis && ob.Out != "" {
				fs = append(fs, histFinding{"output-with-analysis-error", "", where + fmt.Sprintf(": analysis error %q but %q was written", ob.ErrMsg, ob.Out)})
			}
			if ob.Analysis && ob.Marks > 0 {
				fs = append(fs, histFinding{"unanalysed-body-ran", "", where + fmt.Sprintf(": analysis error %q but %d template bodies ran", ob.ErrMsg, ob.Marks)})
			}
		}
		if last.Reference != nil {
			rout, rerr, ok := hist.Reference(sc, last.Reference)
			if ok && (rout != ob.Out && !(rerr && ob.Err) || rerr != ob.Err) {
				fs = append(fs, histFinding{"history-dependent", histClass(ob, rout, rerr) + " in " + kindOf(o), where + fmt.Sprintf(": the last call gives (%q, err=%v %s) but on a freshly built set with the same definitions it gives (%q, err=%v)", ob.Out, ob.Err, ob.ErrMsg, rout, rerr)})
			}
		}
	}
	return fs, m, obs, true
}

// kindOf renders the call without its handle and data, e.g. ExecuteTemplate("href").
func kindOf(o hist.Op) string {
	s := strings.SplitN(o.String(), ".", 2)[1]
	s = strings.Replace(s, ", d0", "", 1)
	s = strings.Replace(s, ", d1", "", 1)
	s = strings.Replace(s, "(d0)", "()", 1)
	return strings.Replace(s, "(d1)", "()", 1)
}

func panicClass(p string) string {
	switch {
	case strings.Contains(p, "unimplemented"):
		return "escaping-unimplemented"
	case strings.Contains(p, "nil pointer"):
		return "nil-pointer"
	case strings.Contains(p, "index out of range"):
		return "index-out-of-range"
	case strings.Contains(p, "out of sync"):
		return "escaping-out-of-sync"
	}
	if len(p) > 40 {
		p = p[:40]
	}
	return p
}

func histClass(ob hist.Obs, rout string, rerr bool) string {
	switch {
	case ob.Err && !rerr:
		return "error-instead-of-output"
	case !ob.Err && rerr:
		return "output-instead-of-error"
	case strings.Contains(ob.Out, "&amp;lt;") || strings.Contains(ob.Out, "&amp;#") || strings.Contains(ob.Out, "&amp;amp;"):
		return "double-escaped"
	case len(ob.Out) < len(rout):
		return "less-escaped"
	}
	return "different-output"
}

type histStats struct{ states, transitions, execs int64 }

// histExtra: scenario-specific expectations on the last op (set by the check that needs them).
var histExtra func(sc *hist.Scenario, ops []hist.Op, obs []hist.Obs) []histFinding

// c05Extra: in the fail-* scenarios the templates bad, cb, ccb (and handles looked up for them) cannot be
// contextualized by construction: every execution of them must return an error and write nothing.
func c05Extra(sc *hist.Scenario, ops []hist.Op, obs []hist.Obs) []histFinding {
	if !strings.HasPrefix(sc.Name, "fail-") {
		return nil
	}
	n := len(ops) - 1
	o, ob := ops[n], obs[n]
	if o.Kind != hist.Exec || ob.Panic != "" {
		return nil
	}
	name := o.Name
	if o.Form < 2 {
		// which template does the handle stand for?
		name = ""
		if o.H == 0 {
			name = "root"
		}
		for i := n - 1; i >= 0; i-- {
			if (ops[i].Kind == hist.Lookup || ops[i].Kind == hist.New) && ops[i].Dst == o.H {
				if ops[i].Kind == hist.Lookup && ops[i].H == 0 {
					name = ops[i].Name
				}
				break
			}
		}
	} else if o.H != 0 && o.H != 3 {
		return nil
	}
	if name != "bad" && name != "cb" && name != "ccb" && !(name == "fix2" && strings.Contains(sc.Name, "recursion")) {
		return nil
	}
	if !ob.Err || ob.Out != "" {
		return []histFinding{{"uncontextualizable-template-executed", name, fmt.Sprintf("scenario %s, history [%s]: template %q cannot be contextualized, yet the call returned (%q, err=%v)", sc.Name, renderOps(ops), name, ob.Out, ob.Err)}}
	}
	return nil
}

// exploreHist: DFS over all op sequences up to depth; report(findings, ops) for every violation of the last op.
func exploreHist(r *core.Run, sc *hist.Scenario, alphabet []hist.Op, depth int, guarded bool, st *histStats, report func(f histFinding, ops []hist.Op)) {
	histScenarios[sc.Name] = sc
	// after the first call of this scenario that does not return, the scenario is not explored further: every
	// further history with that call would wait for the watchdog again and leave another goroutine spinning
	var hung int32
	var rec func(ops []hist.Op)
	rec = func(ops []hist.Op) {
		if r.Expired() || atomic.LoadInt32(&hung) != 0 {
			return
		}
		fs, m, obs, cont := histJudgeLast(sc, ops, guarded)
		if histExtra != nil && len(obs) == len(ops) && len(ops) > 0 {
			fs = append(fs, histExtra(sc, ops, obs)...)
		}
		atomic.AddInt64(&st.states, 1)
		atomic.AddInt64(&st.execs, int64(len(ops)))
		for _, f := range fs {
			report(f, ops)
			if f.clause == "hang" {
				if atomic.SwapInt32(&hung, 1) == 0 {
					r.NotExhaustive("scenario " + sc.Name + ": a call did not return; the scenario was not explored further")
				}
			}
		}
		if !cont || len(ops) >= depth {
			return
		}
		// do not extend beyond a panic: the objects are in an undefined state for the property, but C08 still
		// wants to know what happens next, so we do extend (the panic is reported once per key anyway)
		for _, o := range alphabet {
			if !m.Enabled(o) {
				continue
			}
			atomic.AddInt64(&st.transitions, 1)
			rec(append(ops, o))
		}
	}
	// shard over the first op
	var firsts []hist.Op
	m0 := hist.NewModel(sc.RootName)
	for _, o := range alphabet {
		if m0.Enabled(o) {
			firsts = append(firsts, o)
		}
	}
	fs, _, _, _ := histJudgeLast(sc, nil, guarded)
	for _, f := range fs {
		report(f, nil)
	}
	atomic.AddInt64(&st.states, 1)
	var jobs [][]hist.Op
	for _, a := range firsts {
		if depth >= 2 {
			// second level for better load balancing
			if atomic.LoadInt32(&hung) != 0 {
				break
			}
			fs1, m, _, cont := histJudgeLast(sc, []hist.Op{a}, guarded)
			for _, f := range fs1 {
				if f.clause == "hang" {
					atomic.StoreInt32(&hung, 1)
					report(f, []hist.Op{a})
				}
			}
			if !cont || m == nil {
				jobs = append(jobs, []hist.Op{a})
				continue
			}
			jobs = append(jobs, []hist.Op{a, {Kind: -1}}) // marker: judge [a] itself
			for _, b := range alphabet {
				if m.Enabled(b) {
					jobs = append(jobs, []hist.Op{a, b})
				}
			}
		} else {
			jobs = append(jobs, []hist.Op{a})
		}
	}
	core.ParallelFor(len(jobs), func(i int) {
		j := jobs[i]
		if atomic.LoadInt32(&hung) != 0 {
			return
		}
		if len(j) == 2 && j[1].Kind == -1 {
			fs, _, obs, _ := histJudgeLast(sc, j[:1], guarded)
			if histExtra != nil && len(obs) == 1 {
				fs = append(fs, histExtra(sc, j[:1], obs)...)
			}
			atomic.AddInt64(&st.states, 1)
			atomic.AddInt64(&st.transitions, 1)
			for _, f := range fs {
				report(f, j[:1])
			}
			return
		}
		atomic.AddInt64(&st.transitions, 1)
		rec(append(make([]hist.Op, 0, depth+1), j...))
	})
}

func histReplayFn(clauses map[string]bool) replayFn {
	return func(raw json.RawMessage) (bool, string) {
		var in histReplay
		json.Unmarshal(raw, &in)
		buildHistScenarios()
		sc := histScenarios[in.Scenario]
		if sc == nil {
			return false, "unknown scenario " + in.Scenario
		}
		fs, _, obs, _ := histJudgeLast(sc, in.Ops, true)
		if clauses["uncontextualizable-template-executed"] && len(obs) == len(in.Ops) && len(obs) > 0 {
			fs = append(fs, c05Extra(sc, in.Ops, obs)...)
		}
		var msgs []string
		bad := false
		for _, f := range fs {
			if clauses[f.clause] {
				bad = true
				msgs = append(msgs, f.clause+": "+f.detail)
			}
		}
		if !bad {
			msgs = append(msgs, "history ["+renderOps(in.Ops)+"] in scenario "+in.Scenario+": no violation of this property")
		}
		return bad, strings.Join(msgs, "\n")
	}
}

// ---- scenarios -------------------------------------------------------------------

type failKind struct{ name, bad string }

var failKinds = []failKind{
	{"branch-mismatch", `{{if .S}}<a {{end}}x`},
	{"range-reentry", `{{range .L}}<a title="{{end}}`},
	{"range-reentry-url-prefix", `<a href="{{range .L}}{{.}}:{{end}}">x</a>`},
	{"range-reentry-url-prefix-2", `<a href="{{range .L}}{{.}}ava{{end}}">x</a>`},
	{"nontext-end", `<a href="`},
	{"action-in-tag-name", `<a{{.S}}>`},
	{"unquoted-attr", `<a title={{.S}}>`},
	{"disallowed-element", `<object>{{.S}}</object>`},
	{"unsafe-url-prefix", `<a href="java{{.S}}">`},
	{"ambiguous-url-prefix", `<a href="{{if .S}}/a{{else}}/b{{end}}{{.S}}">`},
	{"undefined-callee", `{{template "nope" .}}`},
	{"uncomputable-recursion", `{{if .S}}<a {{template "bad" .}}{{end}}`},
	{"uncomputable-indirect-recursion", `{{if .N}}{{template "bad2" .N}}{{end}}{{.S}}<script>`},
	{"uncomputable-recursion-3-cycle", `{{if .S}}<a title="{{template "bad3" .}}{{end}}`},
	{"unbalanced-js-template", "<script>var a = `x</script>"},
	{"nontext-end-after-action-in-url", `<a href="{{.S}}`},
	{"nontext-end-after-action-in-title", `<a title='{{.S}}`},
	{"bodyless-callee", `<p>{{.S}}</p>{{template "nobody" .}}<p>tail</p>`},
	{"bodyless-callee-in-branch", `<p>{{.S}}</p>{{if .L}}{{template "nobody" .}}{{end}}<p>tail</p>`},
	{"action-in-js-template", "<script>var b = `{{.S}}`;</script>"},
	{"action-in-js-template-substitution", "<script>var b = `a${ {{.S}} }`;</script>"},
	{"action-in-js-template-after-escaped-backslash", "<script>var a = `\\\\`; var b = `{{.S}}`; var c = `\\\\`;</script>"},
	{"action-in-js-template-between-escaped-backslashes", "<script>var a = `x\\\\`+`{{.S}}`+`y\\\\`;</script>"},
	{"disallowed-attr", `<a onclick="{{.S}}">`},
	{"range-reentry-through-callee", `<ul>{{range .L}}{{template "li" .}}{{else}}<li title="none{{end}}">x</li></ul>`},
	{"range-reentry-url-query", `<a href="/p/{{range .L}}{{.}}?{{end}}">x</a>`},
	{"range-reentry-url-fragment", `<a href="/p/{{range .L}}{{.}}#{{end}}">x</a>`},
	{"continue-in-other-context", `{{range .L}}<b>{{.}}</b><script>{{if $.S}}{{continue}}{{end}}var r = 1;</script>{{end}}`},
	{"break-in-attribute", `{{range .L}}<a title="{{if $.S}}{{break}}{{end}}x">{{.}}</a>{{end}}`},
	{"else-if-chain-attribute-names", `<a {{if .N}}title{{else if .S}}title{{else}}href{{end}}="{{.S}}">x</a>`},
	{"unsafe-prefix-before-shared-callee", `<a href="/ok?{{template "v" .}}">a</a><a href="javascript:{{template "v" .}}">b</a>`},
	{"scheme-part-before-shared-callee", `<a href="/ok/{{template "v" .}}">a</a><a href="java{{template "v" .}}">b</a>`},
	{"ambiguous-prefix-before-shared-callee", `<a href="/ok?{{template "v" .}}">a</a><a href="{{if .S}}javascript:{{else}}/p?{{end}}{{template "v" .}}">b</a>`},
	{"unsafe-scheme-query-before-shared-callee", `<a href="/x?a={{template "v" .}}">a</a><a href="javascript:alert(1)//?{{template "v" .}}">b</a>`},
	{"space-query-before-shared-callee", `<a href="/x?a={{template "v" .}}">a</a><a href=" javascript:alert(1)//?{{template "v" .}}">b</a>`},
	{"scheme-completed-by-shared-callee", `<a href="https{{template "sch" .}}">a</a><a href="javascript{{template "sch" .}}">b</a>`},
	{"scheme-colon-from-shared-callee", `<a href="x{{template "colon"}}{{.S}}">1</a><a href="javascript{{template "colon"}}{{.S}}">2</a>`},
	{"trusted-prefix-before-shared-callee", `<script src="/{{template "ha" .}}"></script><script src="//{{template "ha" .}}"></script>`},
	{"percent-completed-by-shared-callee", `<a href="/search/%2{{template "ipt" .}}">1</a><a href="javascr{{template "ipt" .}}">2</a>`},
	{"before-value-joined-with-unquoted-value", `<a title={{if .N}}x{{end}} class="{{.S}}">y</a>`},
	{"before-value-joined-with-unquoted-value-range", `<a title={{range .N}}x{{end}} class="{{.S}}">y</a>`},
	{"ambiguous-url-prefix-else-if", `<a href="{{if .N}}/path/{{else if .S}}/path/{{else}}/search?q={{end}}{{.S}}">x</a>`},
	{"ambiguous-url-prefix-nested", `<a href="{{if .N}}{{else}}{{if .S}}{{else}}javascript:{{end}}{{end}}{{.S}}">x</a>`},
	{"nontext-end-in-comment", `Hello <!-- unterminated`},
	{"nontext-end-in-comment-after-action", `<b>{{.S}}</b><!-- TODO {{.S}}`},
	{"nontext-end-in-raw-text", `<script>foo()`},
	{"nontext-end-in-rcdata", `<textarea>{{.S}}`},
	{"conditional-rel", `<link {{if .S}}rel="stylesheet"{{else}}rel="icon"{{end}} href="{{.S}}">`},
	{"else-if-chain-attribute-names-2", `<a {{if .N}}title{{else if .S}}href{{else}}title{{end}}="{{.S}}">x</a>`},
}

func c05Scenario(k failKind) *hist.Scenario {
	return &hist.Scenario{
		Name:     "fail-" + k.name,
		RootName: "root",
		Bodyless: []string{"nobody"}, // a name that New has associated with the set and that never got a body
		Init: `{{define "bad"}}{{mark "bad"}}BAD` + k.bad + `{{end}}` +
			`{{define "cb"}}{{mark "cb"}}<p>CB{{template "bad" .}}</p>{{end}}` +
			`{{define "ccb"}}{{mark "ccb"}}<i>CCB{{template "cb" .}}</i>{{end}}` +
			`{{define "good"}}<b>{{.S}}</b>{{end}}{{define "li"}}<li title="{{.}}{{end}}{{define "v"}}{{.S}}{{end}}{{define "sch"}}://h/{{.S}}{{end}}{{define "colon"}}:{{end}}{{define "ha"}}a{{.S}}{{end}}{{define "ipt"}}ipt{{.S}}{{end}}` +
			`{{define "bad2"}}{{template "bad" .}}{{end}}{{define "bad3"}}x{{template "bad2" .}}{{end}}` +
			`{{define "rt"}}<em>partial</em><script src="{{.S}}"></script>{{end}}` +
			`{{define "fix"}}{{mark "fix"}}{{template "bad" .}}x">ok</a>{{end}}` +
			`{{define "fix2"}}{{template "bad" .}}</script>{{end}}` +
			`ROOT{{template "good" .}}`,
		Texts: []string{`{{define "late"}}L{{end}}`},
		Data:  histData(),
	}
}

func c05Alphabet() []hist.Op {
	var ops []hist.Op
	for _, name := range []string{"bad", "cb", "ccb", "good", "rt", "fix", "fix2"} {
		ops = append(ops, hist.Op{Kind: hist.Exec, H: 0, Form: 2, Name: name, Arg: 0}, hist.Op{Kind: hist.Exec, H: 0, Form: 3, Name: name, Arg: 0})
	}
	ops = append(ops,
		hist.Op{Kind: hist.Exec, H: 0, Form: 0, Arg: 0}, hist.Op{Kind: hist.Exec, H: 0, Form: 1, Arg: 1},
		hist.Op{Kind: hist.Lookup, H: 0, Name: "bad", Dst: 1}, hist.Op{Kind: hist.Lookup, H: 0, Name: "cb", Dst: 1},
		hist.Op{Kind: hist.Exec, H: 1, Form: 0, Arg: 0}, hist.Op{Kind: hist.Exec, H: 1, Form: 1, Arg: 0},
		hist.Op{Kind: hist.New, H: 0, Name: "fresh", Dst: 2},
		hist.Op{Kind: hist.Clone, H: 0, Dst: 3},
		hist.Op{Kind: hist.Exec, H: 3, Form: 2, Name: "cb", Arg: 0}, hist.Op{Kind: hist.Exec, H: 3, Form: 3, Name: "bad", Arg: 0},
	)
	return ops
}

func c06Scenario() *hist.Scenario {
	return &hist.Scenario{
		Name:     "shared-helper",
		RootName: "root",
		Init: `{{define "h"}}{{.S}}{{end}}` +
			`{{define "hh"}}[{{template "h" .}}]{{end}}` +
			`{{define "text"}}<p>{{template "h" .}}</p>{{end}}` +
			`{{define "title"}}<a title="{{template "h" .}}">t</a>{{end}}` +
			`{{define "href"}}<a href="{{template "h" .}}">t</a>{{end}}` +
			`{{define "hrefp"}}<a href="/p/{{template "h" .}}">t</a>{{end}}` +
			`{{define "hrefq"}}<a href="/p?q={{template "h" .}}">t</a>{{end}}` +
			`{{define "rc"}}<textarea>{{template "hh" .}}</textarea>{{end}}` +
			`{{define "tt"}}<a title='{{template "hh" .}}'>t</a>{{end}}` +
			`{{define "broken"}}<p>{{template "h" .}}</p><img alt="{{end}}` +
			`{{define "broken2"}}<a title='{{template "hh" .}}'>t</a><!-- unfinished{{end}}` +
			`{{define "rec"}}{{.S}}{{if .N}}{{template "rec" .N}}{{end}}{{end}}` +
			`{{define "open"}}<a href="{{end}}` +
			`{{define "u1"}}{{template "open"}}{{.S}}">x</a>{{end}}` +
			`{{define "u2"}}{{template "open"}}/q?{{.S}}">x</a>{{end}}` +
			`R{{template "text" .}}`,
		Data: histData(),
	}
}

// c06ContextScenario: callees whose analysis depends on the calling context (one fails on its own but is fine inside
// a JS string; one is shared by a plain and a conditional-name call site, by the top level and an element without
// content policy; one is recursive and ends in another context than it starts in).
func c06ContextScenario() *hist.Scenario {
	return &hist.Scenario{
		Name:     "context-dependent-callee",
		RootName: "root",
		Init: `{{define "qa"}}<a href=x"y>{{end}}` +
			`{{define "js"}}<script>var s = '{{template "qa"}}';</script>{{end}}` +
			`{{define "tx"}}<p>{{template "qa"}}</p>{{end}}` +
			`{{define "h"}}{{.S}}{{end}}` +
			`{{define "plain"}}<img src="{{template "h" .}}">{{end}}` +
			`{{define "cond"}}{{if .S}}<script{{else}}<img{{end}} src="{{template "h" .}}"></script>{{end}}` +
			`{{define "top"}}{{template "h" .}}{{end}}` +
			`{{define "svg"}}<svg>{{template "h" .}}</svg>{{end}}` +
			`{{define "rh"}}{{.S}}{{if .N}}{{template "rh" .N}}{{end}}" title="{{.S}}{{end}}` +
			`{{define "ra"}}<a href="{{template "rh" .}}">x</a>{{end}}` +
			`{{define "rt"}}<a title="{{template "rh" .}}">x</a>{{end}}` +
			// a predefined escaper in one pipeline, the same context without it in another (typed data tells them apart)
			`{{define "ph"}}<p>{{.S | html}}</p>{{end}}{{define "pq"}}<p>{{.S}}</p>{{end}}` +
			// a callee that only extends the static URL prefix, used by two call sites
			`{{define "T"}}?q={{end}}{{define "A"}}<a href="/p{{template "T"}}{{.S}}">a</a>{{end}}{{define "B"}}<a href="/p{{template "T"}}{{.S}}">b</a>{{end}}` +
			// one helper inside script elements of different types; helpers that complete a rel value
			`{{define "vx"}}var x = 1;{{end}}{{define "sa"}}<script type="text/a">{{if .S}}{{template "vx"}}{{end}}</script>{{end}}{{define "sb"}}<script type="text/b">{{if .S}}{{template "vx"}}{{end}}</script>{{end}}` +
			`{{define "on"}}on{{end}}{{define "la"}}<link rel="ic{{template "on"}}" href="{{.S}}">{{end}}{{define "lb"}}<link rel="stylesheet c{{template "on"}}" href="{{.S}}">{{end}}` +
			// fails at run time after part of the output was produced
			`{{define "rtf"}}<em>partial</em><script>{{.S}}</script>{{end}}` +
			`R{{template "top" .}}`,
		Data: append(histData(), map[string]interface{}{"S": suc.HTMLFromStringKnownToSatisfyTypeContract("<b>x</b>"), "L": []string{}},
			// the same pointer type once nil (also behind a second pointer) and once pointing to a value
			map[string]interface{}{"S": (*safehtml.HTML)(nil), "L": []string{}},
			map[string]interface{}{"S": func() **safehtml.HTML { var p *safehtml.HTML; return &p }(), "L": []string{}},
			map[string]interface{}{"S": func() *safehtml.HTML { h := suc.HTMLFromStringKnownToSatisfyTypeContract("<b>x</b>"); return &h }(), "L": []string{}},
			map[string]interface{}{"S": func() **safehtml.HTML {
				h := suc.HTMLFromStringKnownToSatisfyTypeContract("<i>y</i>")
				p := &h
				return &p
			}(), "L": []string{}}),
	}
}

// c06EndsAttrScenario: callees that end the attribute (or the attribute name) they were called in and go on in the
// tag. How such a callee has to be analysed depends on things of the call site that the value of the attribute
// alone does not show: whether the attribute name may still go on, what a rel value starts with, and which static
// text belongs to the attribute the callee opens rather than to the one it was called in.
func c06EndsAttrScenario() *hist.Scenario {
	return &hist.Scenario{
		Name:     "callee-ends-the-calling-attribute",
		RootName: "root",
		Init: `{{define "n"}}y="1" title="{{.S}}"{{end}}{{define "np"}}<a data-x{{if .L}} {{end}}{{template "n" .}}>k</a>{{end}}{{define "nq"}}<a data-x{{template "n" .}}>k</a>{{end}}` +
			`{{define "lh"}}" href="{{.S}}"{{end}}{{define "li"}}<link rel="icon{{template "lh" .}}>{{end}}{{define "ls"}}<link rel="stylesheet{{template "lh" .}}>{{end}}` +
			`{{define "qh"}}" href="/a?{{end}}{{define "qp"}}<a title="/a?{{template "qh" .}}{{.S}}">p</a>{{end}}{{define "qq"}}<a title="zz{{template "qh" .}}{{.S}}">q</a>{{end}}` +
			`{{define "jh"}}" href="java{{end}}{{define "jp"}}<a title="java{{template "jh" .}}">p</a>{{end}}{{define "jq"}}<a title="/x?{{template "jh" .}}{{.S}}">q</a>{{end}}{{define "jr"}}<a title="/x{{template "jh" .}}{{.S}}">r</a>{{end}}` +
			// a helper called after a complete attribute name and after one that is split over text nodes
			`{{define "sh"}}{{.S}}{{end}}{{define "sp"}}<p title="{{template "sh" .}}">p</p>{{end}}{{define "sq"}}<p title{{if .L}}{{end}}x="{{template "sh" .}}">q</p>{{end}}{{define "st"}}<p{{if .L}}{{end}}re title="{{template "sh" .}}">t</p>{{end}}` +
			`R{{.S}}`,
		Data: histData(),
	}
}

func c06EndsAttrAlphabet() []hist.Op {
	var ops []hist.Op
	for _, name := range []string{"np", "nq", "li", "ls", "qp", "qq", "jp", "jq", "jr", "sp", "sq", "st"} {
		ops = append(ops, hist.Op{Kind: hist.Exec, H: 0, Form: 2, Name: name, Arg: 0})
	}
	ops = append(ops, hist.Op{Kind: hist.Exec, H: 0, Form: 2, Name: "li", Arg: 1}, hist.Op{Kind: hist.Exec, H: 0, Form: 2, Name: "jr", Arg: 1}, hist.Op{Kind: hist.Exec, H: 0, Form: 0, Arg: 0})
	return ops
}

// c06ContextAlphabet: part 1 = callees whose analysis depends on the calling context, part 2 = state of the escaper and
// of the sanitizers between executions. The two halves are explored as separate scenarios over the same definitions
// (30 calls to depth 4 do not fit the quick budget; the halves do).
func c06ContextAlphabet(part int) []hist.Op {
	var ops []hist.Op
	if part == 1 {
		for _, name := range []string{"qa", "js", "tx", "h", "plain", "cond", "top", "svg", "rh", "ra", "rt", "sa", "sb", "la", "lb"} {
			ops = append(ops, hist.Op{Kind: hist.Exec, H: 0, Form: 2, Name: name, Arg: 0})
		}
		ops = append(ops, hist.Op{Kind: hist.Exec, H: 0, Form: 0, Arg: 0}, hist.Op{Kind: hist.Exec, H: 0, Form: 2, Name: "ra", Arg: 1})
		return ops
	}
	ops = append(ops, hist.Op{Kind: hist.Exec, H: 0, Form: 2, Name: "h", Arg: 0}, hist.Op{Kind: hist.Exec, H: 0, Form: 2, Name: "top", Arg: 0})
	for _, name := range []string{"ph", "pq", "text2"} {
		if name != "text2" {
			ops = append(ops, hist.Op{Kind: hist.Exec, H: 0, Form: 2, Name: name, Arg: 2})
		}
	}
	for _, name := range []string{"A", "B"} {
		ops = append(ops, hist.Op{Kind: hist.Exec, H: 0, Form: 2, Name: name, Arg: 0})
	}
	for _, name := range []string{"rtf", "top", "pq"} {
		ops = append(ops, hist.Op{Kind: hist.Exec, H: 0, Form: 3, Name: name, Arg: 0})
	}
	ops = append(ops, hist.Op{Kind: hist.Exec, H: 0, Form: 1, Arg: 0}, hist.Op{Kind: hist.CSP, H: 0})
	for arg := 3; arg <= 6; arg++ {
		ops = append(ops, hist.Op{Kind: hist.Exec, H: 0, Form: 2, Name: "pq", Arg: arg})
	}
	return ops
}

func c06Alphabet() []hist.Op {
	var ops []hist.Op
	for _, name := range []string{"h", "hh", "text", "title", "href", "hrefp", "hrefq", "rc", "tt", "rec", "u1", "u2", "broken", "broken2", "open"} {
		ops = append(ops, hist.Op{Kind: hist.Exec, H: 0, Form: 2, Name: name, Arg: 0})
	}
	for _, name := range []string{"h", "title", "href", "hrefp"} {
		ops = append(ops, hist.Op{Kind: hist.Exec, H: 0, Form: 3, Name: name, Arg: 1})
	}
	ops = append(ops, hist.Op{Kind: hist.Exec, H: 0, Form: 0, Arg: 0})
	return ops
}

func c07Scenario() *hist.Scenario {
	return &hist.Scenario{
		Name:     "freeze-and-clone",
		RootName: "root",
		Init:     `{{define "a"}}<b>{{.S}}</b>{{end}}{{define "c"}}[{{template "a" .}}]{{end}}{{define "lit"}}1 < 2{{end}}{{define "ev"}}<a href="#top" onclick="go()">{{.S}}</a>{{end}}R:{{template "c" .}}{{template "lit"}}`,
		Texts: []string{
			`{{define "a"}}<i>{{.S}}</i>{{end}}`,
			`{{define "n"}}N{{.S}}{{end}}`,
			`{{define "c"}}<a title="{{template "a" .}}">{{template "lit"}}</a>{{end}}`,
			`{{define "c"}}<a title="{{template "lit"}}">x</a><script>if ({{template "lit"}}) {}</script>{{end}}`,
		},
		Data: histData(),
	}
}

func c07Alphabet() []hist.Op {
	var ops []hist.Op
	for _, h := range []int{0, 2} {
		for t := 0; t < 4; t++ {
			ops = append(ops, hist.Op{Kind: hist.Parse, H: h, Arg: t})
		}
		ops = append(ops, hist.Op{Kind: hist.Exec, H: h, Form: 0, Arg: 0}, hist.Op{Kind: hist.Exec, H: h, Form: 2, Name: "a", Arg: 0},
			hist.Op{Kind: hist.Exec, H: h, Form: 3, Name: "c", Arg: 0}, hist.Op{Kind: hist.Exec, H: h, Form: 2, Name: "n", Arg: 0})
	}
	ops = append(ops,
		hist.Op{Kind: hist.ParseFiles, H: 0}, hist.Op{Kind: hist.ParseGlob, H: 2}, hist.Op{Kind: hist.ParseFS, H: 0},
		hist.Op{Kind: hist.Clone, H: 0, Dst: 2}, hist.Op{Kind: hist.Clone, H: 2, Dst: 4},
		hist.Op{Kind: hist.Lookup, H: 0, Name: "a", Dst: 1}, hist.Op{Kind: hist.Lookup, H: 2, Name: "c", Dst: 3},
		hist.Op{Kind: hist.New, H: 0, Name: "a", Dst: 1}, hist.Op{Kind: hist.New, H: 2, Name: "z", Dst: 3},
		hist.Op{Kind: hist.Parse, H: 1, Arg: 0}, hist.Op{Kind: hist.Parse, H: 3, Arg: 1},
		hist.Op{Kind: hist.Exec, H: 1, Form: 1, Arg: 0}, hist.Op{Kind: hist.Exec, H: 3, Form: 0, Arg: 0},
		hist.Op{Kind: hist.Exec, H: 4, Form: 2, Name: "c", Arg: 0}, hist.Op{Kind: hist.Parse, H: 4, Arg: 2},
		hist.Op{Kind: hist.Templates, H: 0}, hist.Op{Kind: hist.Defined, H: 2},
		// a setting of one set (CSP-compatible mode refuses the inline handler of "ev") must not reach its clones or its origin
		hist.Op{Kind: hist.CSP, H: 0}, hist.Op{Kind: hist.CSP, H: 2},
		hist.Op{Kind: hist.Exec, H: 0, Form: 2, Name: "ev", Arg: 0}, hist.Op{Kind: hist.Exec, H: 2, Form: 2, Name: "ev", Arg: 0},
	)
	return ops
}

// c07StaleAlphabet: a small alphabet explored deeper: handles that were replaced by New, clones, re-parsing.
func c07StaleAlphabet() []hist.Op {
	return []hist.Op{
		{Kind: hist.Lookup, H: 0, Name: "a", Dst: 1}, {Kind: hist.New, H: 0, Name: "a", Dst: 5}, {Kind: hist.Parse, H: 5, Arg: 0},
		{Kind: hist.Parse, H: 1, Arg: 0}, {Kind: hist.Parse, H: 1, Arg: 1}, {Kind: hist.Parse, H: 0, Arg: 0},
		{Kind: hist.Exec, H: 0, Form: 0, Arg: 0}, {Kind: hist.Exec, H: 0, Form: 2, Name: "a", Arg: 0}, {Kind: hist.Exec, H: 1, Form: 1, Arg: 0},
		{Kind: hist.Clone, H: 0, Dst: 2}, {Kind: hist.Exec, H: 2, Form: 0, Arg: 0}, {Kind: hist.Parse, H: 2, Arg: 3}, {Kind: hist.Exec, H: 2, Form: 2, Name: "c", Arg: 0},
	}
}

func c08Scenario() *hist.Scenario {
	return &hist.Scenario{
		Name:     "totality",
		RootName: "root",
		Init: `{{define "brk"}}{{range .L}}{{break}}{{end}}{{end}}{{define "cnt"}}{{range .L}}{{continue}}{{end}}{{end}}` +
			`{{define "bad"}}<a {{end}}{{define "cb"}}x{{template "bad"}}{{end}}{{define "empty"}}{{end}}{{define "ce"}}{{template "empty"}}{{end}}` +
			`{{define "cmt"}}a{{/* c */}}b{{end}}{{define "tagend"}}<my-{{end}}{{define "tagend2"}}<svg:{{end}}` +
			// functions that call back into the set during an execution
			`{{define "item"}}<li>{{.}}</li>{{end}}{{define "pp"}}<ul>{{range .L}}{{partial "item" .}}{{end}}</ul>{{end}}` +
			`{{define "hs"}}{{if has "item"}}{{template "item" .S}}{{end}}{{count}}{{end}}{{define "pbad"}}{{partial "bad" .}}{{end}}` +
			// recursive helpers that extend the static text of an attribute value; a helper that closes the calling attribute
			`{{define "rr"}}a{{if .N}}{{template "rr" .N}}{{end}}{{end}}{{define "recp"}}<a href="x{{template "rr" .}}">l</a>{{end}}` +
			`{{define "rq"}}k={{.S}}{{if .N}}&{{template "rq" .N}}{{end}}{{end}}{{define "recq"}}<a href="/p?{{template "rq" .}}">l</a>{{end}}` +
			`{{define "rt"}}/a{{if .N}}{{template "rt" .N}}{{end}}{{end}}{{define "rect"}}<script src="/s{{template "rt" .}}/x.js"></script>{{end}}` +
			`{{define "t2"}}" title="{{end}}{{define "twice"}}<a href="/foo?{{template "t2"}}{{.S}}">x</a><a href="/foo?{{template "t2"}}{{.S}}">y</a>{{range .L}}<b title="a{{template "t2"}}b">z</b>{{end}}{{end}}ROOT`,
		Texts: []string{`{{define "x"}}{{.S}`, `{{define "bad"}}ok{{end}}`, `<p {{.S}}>x</p>`, `<p>{{.S}}</p>`},
		Data:  histData(),
	}
}

func c08Alphabet() []hist.Op {
	var ops []hist.Op
	for _, name := range []string{"brk", "cnt", "bad", "cb", "empty", "ce", "cmt", "tagend", "tagend2", "nope", "pp", "hs", "pbad", "recp", "recq", "rect", "twice"} {
		ops = append(ops, hist.Op{Kind: hist.Exec, H: 0, Form: 2, Name: name, Arg: 0})
	}
	ops = append(ops,
		hist.Op{Kind: hist.Exec, H: 0, Form: 1, Arg: 0},
		hist.Op{Kind: hist.Parse, H: 0, Arg: 0}, hist.Op{Kind: hist.Parse, H: 0, Arg: 1},
		hist.Op{Kind: hist.Lookup, H: 0, Name: "bad", Dst: 1}, hist.Op{Kind: hist.Lookup, H: 0, Name: "nope", Dst: 1},
		hist.Op{Kind: hist.Exec, H: 1, Form: 0, Arg: 0}, hist.Op{Kind: hist.Clone, H: 1, Dst: 2}, hist.Op{Kind: hist.Clone, H: 0, Dst: 2},
		hist.Op{Kind: hist.Exec, H: 2, Form: 2, Name: "cb", Arg: 0}, hist.Op{Kind: hist.New, H: 0, Name: "bad", Dst: 3}, hist.Op{Kind: hist.Exec, H: 3, Form: 0, Arg: 0},
		hist.Op{Kind: hist.Templates, H: 0}, hist.Op{Kind: hist.Defined, H: 0}, hist.Op{Kind: hist.Parse, H: 3, Arg: 0},
		hist.Op{Kind: hist.ParseFS, H: 0, Arg: 1}, hist.Op{Kind: hist.ParseFS, H: 0, Arg: 2},
	)
	return ops
}

func c08SingleScenario() *hist.Scenario {
	return &hist.Scenario{Name: "parse-entry-points-single-template", RootName: "root", Init: `<p title="{{.S}}">{{.S}}</p>`, Texts: []string{`x`}, Data: histData()}
}

func c08ParseAlphabet() []hist.Op {
	var ops []hist.Op
	for a := 1; a <= 3; a++ {
		ops = append(ops, hist.Op{Kind: hist.ParseFiles, H: 0, Arg: a}, hist.Op{Kind: hist.ParseGlob, H: 0, Arg: a})
	}
	for a := 3; a <= 6; a++ {
		ops = append(ops, hist.Op{Kind: hist.ParseFS, H: 0, Arg: a})
	}
	return append(ops, hist.Op{Kind: hist.ParseFiles, H: 0, Arg: 0},
		hist.Op{Kind: hist.Exec, H: 0, Form: 0, Arg: 0}, hist.Op{Kind: hist.Exec, H: 0, Form: 1, Arg: 0}, hist.Op{Kind: hist.Exec, H: 0, Form: 2, Name: "fa", Arg: 0},
		hist.Op{Kind: hist.Templates, H: 0}, hist.Op{Kind: hist.Clone, H: 0, Dst: 2}, hist.Op{Kind: hist.Exec, H: 2, Form: 0, Arg: 0})
}

// histObsSubcommand (vcheck hist-obs <scenario> <ops JSON>) prints the observation of the last call of a history run
// in this, freshly started, process. histProcessFresh compares such observations with the ones obtained at the end
// of a long exploration in the checking process: state that the library keeps outside the template set (package
// variables, caches, pools) is invisible to the reference "same calls on a freshly built set" of the same process.
func histObsSubcommand(scName, opsJSON string) int {
	buildHistScenarios()
	sc := histScenarios[scName]
	var ops []hist.Op
	if sc == nil || json.Unmarshal([]byte(opsJSON), &ops) != nil || len(ops) == 0 {
		fmt.Println("{}")
		return 2
	}
	obs, err := hist.Run(sc, ops, false)
	if err != nil || len(obs) != len(ops) {
		fmt.Println("{}")
		return 2
	}
	b, _ := json.Marshal(obs[len(obs)-1])
	fmt.Println(string(b))
	return 0
}

func histProcessFresh(r *core.Run, sc *hist.Scenario, alphabet []hist.Op) {
	exe, err := os.Executable()
	if err != nil {
		r.HarnessError("os.Executable: %v", err)
		return
	}
	var n int
	for _, o := range alphabet {
		if o.Kind != hist.Exec {
			continue
		}
		ops := []hist.Op{o}
		here, err := hist.Run(sc, ops, false)
		if err != nil || len(here) != 1 {
			continue
		}
		j, _ := json.Marshal(ops)
		out, err := exec.Command(exe, "hist-obs", sc.Name, string(j)).Output()
		var fresh hist.Obs
		if err != nil || json.Unmarshal(out, &fresh) != nil {
			r.HarnessError("hist-obs %s %s: %v %s", sc.Name, j, err, out)
			return
		}
		n++
		if fresh.Out != here[0].Out || fresh.Err != here[0].Err {
			r.Witness("history-dependent", sc.Name+" process-wide state in "+o.String(), renderOps(ops),
				fmt.Sprintf("scenario %s: after the exploration, [%s] on a freshly built set gives (%q, err=%v), in a freshly started process (%q, err=%v): the result depends on calls made on other sets", sc.Name, renderOps(ops), here[0].Out, here[0].Err, fresh.Out, fresh.Err),
				histReplay{sc.Name, ops})
		}
	}
	r.Set("process_fresh_"+sc.Name, fmt.Sprintf("%d single-call histories compared with a freshly started process after the exploration", n))
}

func buildHistScenarios() {
	for _, k := range failKinds {
		sc := c05Scenario(k)
		histScenarios[sc.Name] = sc
	}
	for _, sc := range []*hist.Scenario{c06Scenario(), c06ContextScenario(), c06EndsAttrScenario(), c07Scenario(), c08Scenario()} {
		histScenarios[sc.Name] = sc
	}
	ctx2 := c06ContextScenario()
	ctx2.Name = "escaper-state-between-executions"
	histScenarios[ctx2.Name] = ctx2
	stale := c07Scenario()
	stale.Name = "stale-handles"
	histScenarios[stale.Name] = stale
	bl := c07Scenario()
	bl.Name = "clone-bodyless"
	histScenarios[bl.Name] = bl
	rp := c08Scenario()
	rp.Name = "replaced-template"
	histScenarios[rp.Name] = rp
	pe := c08Scenario()
	pe.Name = "parse-entry-points"
	histScenarios[pe.Name] = pe
	histScenarios["parse-entry-points-single-template"] = c08SingleScenario()
	fa := c07Scenario()
	fa.Name = "failed-analysis-then-clone"
	fa.Init = `{{define "bad"}}<a href="{{end}}{{define "cbad"}}<p>{{template "bad"}}</p>{{end}}{{define "bad2"}}{{if .S}}<a href="{{end}}{{.S}}{{end}}` + fa.Init
	histScenarios[fa.Name] = fa
}

// ---- the four checks -------------------------------------------------------------

var (
	c05Clauses = map[string]bool{"uncontextualizable-template-executed": true, "nonzero-html-on-error": true, "output-with-analysis-error": true, "unanalysed-body-ran": true, "history-dependent": true}
	c06Clauses = map[string]bool{"history-dependent": true}
	c07Clauses = map[string]bool{"parse-after-execute": true, "clone-after-execute": true, "history-dependent": true}
	c08Clauses = map[string]bool{"panic": true, "hang": true}
)

func init() {
	register("C05", "model_checking", checkC05)
	register("C06", "model_checking", checkC06)
	register("C07", "model_checking", checkC07)
	register("C08", "model_checking", checkC08)
	replayers["C05"] = histReplayFn(c05Clauses)
	c06Hist := histReplayFn(c06Clauses)
	replayers["C06"] = func(raw json.RawMessage) (bool, string) {
		if bad, detail, isPair := c06PairReplayFn(raw); isPair {
			return bad, detail
		}
		return c06Hist(raw)
	}
	replayers["C07"] = histReplayFn(c07Clauses)
	replayers["C08"] = histReplayFn(c08Clauses)
}

func histRun(r *core.Run, clauses map[string]bool, scs []*hist.Scenario, alpha func(*hist.Scenario) []hist.Op, depth int, guarded bool) {
	var st histStats
	for _, sc := range scs {
		sc := sc
		before := st
		d := depth
		if sc.Name == "fail-uncomputable-recursion-3-cycle" {
			// every analysis of this set costs tens of milliseconds (the engine retries each member of the cycle
			// in each context): one level less keeps the scenario within the budget of the tier
			d = depth - 1
		}
		exploreHist(r, sc, alpha(sc), d, guarded, &st, func(f histFinding, ops []hist.Op) {
			if !clauses[f.clause] {
				return
			}
			in := renderOps(ops)
			r.Witness(f.clause, sc.Name+" "+f.discr, in, f.detail, histReplay{sc.Name, append([]hist.Op{}, ops...)})
		})
		r.Set("scenario_"+sc.Name, fmt.Sprintf("%d ops, depth<=%d: histories=%d op-applications=%d", len(alpha(sc)), d, st.states-before.states, st.transitions-before.transitions))
	}
	if r.Expired() {
		r.NotExhaustive("internal deadline reached before every scenario was explored to the depth bound")
	}
	r.Set("states", st.states)
	r.Set("transitions", st.transitions)
	r.Set("traces_validated_against_impl", st.states)
	r.Set("api_calls_executed", st.execs)
	r.Set("depth", depth)
}

func checkC05(r *core.Run) {
	depth := 3
	if r.Thorough() {
		depth = 4
	}
	var scs []*hist.Scenario
	for _, k := range failKinds {
		scs = append(scs, c05Scenario(k))
	}
	histExtra = c05Extra
	histRun(r, c05Clauses, scs, func(*hist.Scenario) []hist.Op { return c05Alphabet() }, depth, true) // guarded: an analysis that does not return ends the scenario instead of the check
	histExtra = nil
	r.Sample(map[string]string{"scenario": "fail-branch-mismatch", "history": renderOps(c05Alphabet()[:3])})
	r.Assume("reference model: a set's results are those of a freshly built set with the same definition calls; analysis errors are recognised as *template.Error / 'incomplete' / 'undefined' errors")
}

func checkC06(r *core.Run) {
	depth := 4
	if r.Thorough() {
		depth = 5 // two scenarios with 20 and 22 calls: depth 6 does not finish within the thorough budget
	}
	ctx2 := c06ContextScenario()
	ctx2.Name = "escaper-state-between-executions"
	histRun(r, c06Clauses, []*hist.Scenario{c06Scenario(), c06ContextScenario(), ctx2, c06EndsAttrScenario()}, func(sc *hist.Scenario) []hist.Op {
		switch sc.Name {
		case "callee-ends-the-calling-attribute":
			return c06EndsAttrAlphabet()
		case "context-dependent-callee":
			return c06ContextAlphabet(1)
		case "escaper-state-between-executions":
			return c06ContextAlphabet(2)
		}
		return c06Alphabet()
	}, depth, false)
	histProcessFresh(r, c06Scenario(), c06Alphabet())
	histProcessFresh(r, c06ContextScenario(), c06ContextAlphabet(1))
	histProcessFresh(r, ctx2, c06ContextAlphabet(2))
	histProcessFresh(r, c06EndsAttrScenario(), c06EndsAttrAlphabet())
	c06CallSitePairs(r)
	r.Sample(map[string]string{"scenario": "shared-helper", "history": renderOps(c06Alphabet()[2:5])})
	r.Assume("expected value of every call = the same call on a freshly built set (no hand-written expectations)")
}

func checkC07(r *core.Run) {
	depth := 4
	if r.Thorough() {
		depth = 5
	}
	histRun(r, c07Clauses, []*hist.Scenario{c07Scenario()}, func(*hist.Scenario) []hist.Op { return c07Alphabet() }, depth, false)
	stale := c07Scenario()
	stale.Name = "stale-handles"
	var st2 histStats
	exploreHist(r, stale, c07StaleAlphabet(), depth+1, false, &st2, func(f histFinding, ops []hist.Op) {
		if c07Clauses[f.clause] {
			r.Witness(f.clause, stale.Name+" "+f.discr, renderOps(ops), f.detail, histReplay{stale.Name, append([]hist.Op{}, ops...)})
		}
	})
	// templates declared with New that have no body when the set is cloned
	bl := c07Scenario()
	bl.Name = "clone-bodyless"
	blAlpha := []hist.Op{
		{Kind: hist.New, H: 0, Name: "sb", Dst: 1}, {Kind: hist.Clone, H: 0, Dst: 2}, {Kind: hist.Lookup, H: 2, Name: "sb", Dst: 3}, {Kind: hist.Parse, H: 3, Arg: 1}, {Kind: hist.Parse, H: 1, Arg: 0},
		{Kind: hist.Exec, H: 0, Form: 2, Name: "sb", Arg: 0}, {Kind: hist.Exec, H: 2, Form: 2, Name: "sb", Arg: 0}, {Kind: hist.Exec, H: 0, Form: 0, Arg: 0}, {Kind: hist.Exec, H: 2, Form: 2, Name: "n", Arg: 0},
	}
	var st3 histStats
	exploreHist(r, bl, blAlpha, depth+1, false, &st3, func(f histFinding, ops []hist.Op) {
		if c07Clauses[f.clause] {
			r.Witness(f.clause, bl.Name+" "+f.discr, renderOps(ops), f.detail, histReplay{bl.Name, append([]hist.Op{}, ops...)})
		}
	})
	r.Set("scenario_clone-bodyless", fmt.Sprintf("%d ops, depth<=%d: histories=%d", len(blAlpha), depth+1, st3.states))
	r.Add("states", st3.states)
	r.Add("transitions", st3.transitions)
	// a set frozen by an execution whose analysis failed: Clone of an executed template must fail, Parse must fail
	fa := c07Scenario()
	fa.Name = "failed-analysis-then-clone"
	fa.Init = `{{define "bad"}}<a href="{{end}}{{define "cbad"}}<p>{{template "bad"}}</p>{{end}}{{define "bad2"}}{{if .S}}<a href="{{end}}{{.S}}{{end}}` + fa.Init
	faAlpha := []hist.Op{
		{Kind: hist.Exec, H: 0, Form: 2, Name: "bad", Arg: 0}, {Kind: hist.Exec, H: 0, Form: 3, Name: "cbad", Arg: 0}, {Kind: hist.Exec, H: 0, Form: 2, Name: "bad2", Arg: 0}, {Kind: hist.Exec, H: 0, Form: 0, Arg: 0},
		{Kind: hist.Lookup, H: 0, Name: "bad", Dst: 1}, {Kind: hist.Lookup, H: 0, Name: "a", Dst: 1}, {Kind: hist.Lookup, H: 0, Name: "cbad", Dst: 1}, {Kind: hist.Clone, H: 1, Dst: 2}, {Kind: hist.Clone, H: 0, Dst: 2},
		{Kind: hist.Parse, H: 2, Arg: 0}, {Kind: hist.Exec, H: 2, Form: 2, Name: "a", Arg: 0}, {Kind: hist.Parse, H: 0, Arg: 0}, {Kind: hist.Exec, H: 1, Form: 0, Arg: 0},
	}
	var st4 histStats
	exploreHist(r, fa, faAlpha, depth, false, &st4, func(f histFinding, ops []hist.Op) {
		if c07Clauses[f.clause] {
			r.Witness(f.clause, fa.Name+" "+f.discr, renderOps(ops), f.detail, histReplay{fa.Name, append([]hist.Op{}, ops...)})
		}
	})
	r.Set("scenario_failed-analysis-then-clone", fmt.Sprintf("%d ops, depth<=%d: histories=%d", len(faAlpha), depth, st4.states))
	r.Add("states", st4.states)
	r.Add("transitions", st4.transitions)
	r.Set("scenario_stale-handles", fmt.Sprintf("%d ops, depth<=%d: histories=%d", len(c07StaleAlphabet()), depth+1, st2.states))
	r.Add("states", st2.states)
	r.Add("transitions", st2.transitions)
	r.Sample(map[string]string{"scenario": "freeze-and-clone", "history": renderOps(c07Alphabet()[11:16])})
	r.Assume("reference model (40 lines): per set {executed, lineage of definition calls}; Parse*/Clone after execution must fail; every output equals the replay of the set's own lineage")
}

func checkC08(r *core.Run) {
	depth := 3
	if r.Thorough() {
		depth = 4
	}
	var scs []*hist.Scenario
	scs = append(scs, c08Scenario(), c06Scenario(), c07Scenario())
	for _, k := range failKinds {
		scs = append(scs, c05Scenario(k))
	}
	alpha := func(sc *hist.Scenario) []hist.Op {
		switch {
		case sc.Name == "totality":
			return c08Alphabet()
		case sc.Name == "shared-helper":
			return c06Alphabet()
		case sc.Name == "freeze-and-clone":
			return c07Alphabet()
		}
		return c05Alphabet()
	}
	histRun(r, c08Clauses, scs, alpha, depth, true)
	// a template replaced by New(same name) and parsed again through the old handle
	rp := c08Scenario()
	rp.Name = "replaced-template"
	rpAlpha := []hist.Op{
		{Kind: hist.New, H: 0, Name: "root", Dst: 1}, {Kind: hist.Parse, H: 0, Arg: 2}, {Kind: hist.Parse, H: 1, Arg: 2}, {Kind: hist.Parse, H: 0, Arg: 3},
		{Kind: hist.Exec, H: 0, Form: 0, Arg: 0}, {Kind: hist.Exec, H: 0, Form: 1, Arg: 0}, {Kind: hist.Exec, H: 1, Form: 0, Arg: 0}, {Kind: hist.Exec, H: 0, Form: 2, Name: "root", Arg: 0},
	}
	var st2 histStats
	exploreHist(r, rp, rpAlpha, depth+1, true, &st2, func(f histFinding, ops []hist.Op) {
		if c08Clauses[f.clause] {
			r.Witness(f.clause, rp.Name+" "+f.discr, renderOps(ops), f.detail, histReplay{rp.Name, append([]hist.Op{}, ops...)})
		}
	})
	r.Set("scenario_replaced-template", fmt.Sprintf("%d ops, depth<=%d: histories=%d", len(rpAlpha), depth+1, st2.states))
	r.Add("states", st2.states)
	r.Add("transitions", st2.transitions)
	// the file-based entry points with every kind of argument list: none, missing, matching nothing, malformed,
	// a file that does not parse and is named like the receiver
	pe := c08Scenario()
	pe.Name = "parse-entry-points"
	var st3 histStats
	exploreHist(r, pe, c08ParseAlphabet(), depth+1, true, &st3, func(f histFinding, ops []hist.Op) {
		if c08Clauses[f.clause] {
			r.Witness(f.clause, pe.Name+" "+f.discr, renderOps(ops), f.detail, histReplay{pe.Name, append([]hist.Op{}, ops...)})
		}
	})
	r.Set("scenario_parse-entry-points", fmt.Sprintf("%d ops, depth<=%d: histories=%d", len(c08ParseAlphabet()), depth+1, st3.states))
	r.Add("states", st3.states)
	r.Add("transitions", st3.transitions)
	// the same calls on a set whose only member is the receiver
	ps := c08SingleScenario()
	var st4 histStats
	exploreHist(r, ps, c08ParseAlphabet(), depth+1, true, &st4, func(f histFinding, ops []hist.Op) {
		if c08Clauses[f.clause] {
			r.Witness(f.clause, ps.Name+" "+f.discr, renderOps(ops), f.detail, histReplay{ps.Name, append([]hist.Op{}, ops...)})
		}
	})
	r.Set("scenario_parse-entry-points-single-template", fmt.Sprintf("%d ops, depth<=%d: histories=%d", len(c08ParseAlphabet()), depth+1, st4.states))
	r.Add("states", st4.states)
	r.Add("transitions", st4.transitions)
	c08Syntax(r)
	r.Sample(map[string]string{"scenario": "totality", "history": renderOps(c08Alphabet()[:3])})
	r.Assume("every API call runs under recover and a 30 s watchdog (the calls take microseconds); a timeout is only a hang if it reproduces")
}
