package main

import (
	"encoding/json"
	"fmt"
	"os"
	"path/filepath"
	"sort"
	"strings"
	"sync"
	"sync/atomic"

	"verif/internal/core"
	"verif/internal/tmplx"
	"verif/policy"
)

func init() {
	register("C04", "model_checking", checkC04)
	replayers["C04"] = func(raw json.RawMessage) (bool, string) {
		var in c04Replay
		json.Unmarshal(raw, &in)
		obs := classifyCell(in.Program, in.C, in.C2)
		ok := c04AtLeast(obs, in.Reviewed)
		if ok && (obs.Class == "URL" || obs.Class == "TRURLOrURL") {
			if cl, detail := c04URLEffects(in.Program, in.C); cl != "" {
				return true, cl + ": " + detail
			}
		}
		return !ok, fmt.Sprintf("program %q (C=%v): observed class %s (%v %s), reviewed policy demands at least %s", in.Program, in.C, obs, obs.Kind, obs.Err, in.Reviewed)
	}
}

// c04URLEffects: a cell that behaves as a URL context must show the effects of the normalizer and of the sanitizer.
func c04URLEffects(text string, c bool) (clause, detail string) {
	p, _ := tmplx.Prepare(text)
	if p == nil {
		return "", ""
	}
	if rn := execOne(p, "a b\"c", c); rn.Kind == tmplx.OK && !strings.Contains(rn.Out, "a%20b%22c") {
		return "url-not-normalized", fmt.Sprintf("program %s: plain URL %q rendered as %s (normalizer did not run)", core.Q(text), "a b\"c", core.Q(rn.Out))
	}
	// the sanitizer runs for every shape of a javascript URL a plain string can have
	for _, u := range []string{"javascript://h.example/%0Aalert(1)", "JAVASCRIPT://h/", "JavaScript:x", "\tjavascript:x", "java\nscript://x"} {
		if rj := execOne(p, u, c); rj.Kind == tmplx.OK && strings.Contains(strings.ToLower(strings.NewReplacer("\t", "", "\n", "", "&#9;", "", "&#10;", "", "%09", "", "%0a", "").Replace(rj.Out)), "javascript:") {
			return "url-not-sanitized", fmt.Sprintf("program %s: plain string %q rendered as %s (the URL sanitizer did not replace it)", core.Q(text), u, core.Q(rj.Out))
		}
	}
	return "", ""
}

type c04Replay struct {
	Program  string
	C, C2    bool
	Reviewed string
}

var linkRelCandidates = []string{"alternate", "author", "bookmark", "canonical", "cite", "dns-prefetch", "help", "icon", "license", "next", "preconnect", "prefetch", "preload",
	"prerender", "prev", "search", "subresource", "stylesheet", "import", "manifest", "modulepreload", "pingback", "nofollow", "noopener", "tag", "shortcut", "apple-touch-icon", "unknown", "me", "external"}

func cellText(el, attr, q, pre string) string {
	if attr == "" {
		return "<" + el + ">{{$.P0}}</" + strings.Fields(el)[0] + ">"
	}
	return "<" + el + " " + attr + "=" + q + pre + "{{$.P0}}" + q + "></" + strings.Fields(el)[0] + ">"
}

// genPolicy classifies every cell of the universe on the current tree and writes policy/reviewed_table.json.
// It is run by hand (vcheck gen-policy) on the pinned tree; the result is then reviewed (policy.Table.Review).
func genPolicy() int {
	els, ats := policy.Elements(), policy.Attributes()
	var lower []string
	seen := map[string]bool{}
	for _, e := range els {
		l := strings.ToLower(e)
		if !seen[l] {
			seen[l] = true
			lower = append(lower, l)
		}
	}
	obs := map[string]string{}
	var mu sync.Mutex
	type job struct{ el, at string }
	var jobs []job
	for _, e := range lower {
		jobs = append(jobs, job{e, ""})
		for _, a := range ats {
			if a == strings.ToLower(a) {
				jobs = append(jobs, job{e, a})
			}
		}
	}
	core.ParallelFor(len(jobs), func(i int) {
		j := jobs[i]
		c := classifyCell(cellText(j.el, j.at, "\"", ""), false).String()
		if c == "NoOutput" || c == "Escaped?" {
			c = "reject"
		}
		mu.Lock()
		obs[j.el+" "+j.at] = c
		mu.Unlock()
	})
	t := policy.Table{Global: map[string]string{}, Specific: map[string]string{}, Content: map[string]string{}, DataAttrPattern: "^data-[a-z_][-a-z0-9_]*$"}
	for _, e := range lower {
		if c := obs[e+" "]; c != "reject" {
			t.Content[e] = c
		}
		if obs[e+" title"] != "reject" {
			t.AllowedElements = append(t.AllowedElements, e)
		}
	}
	allowed := map[string]bool{}
	for _, e := range t.AllowedElements {
		allowed[e] = true
	}
	for _, a := range ats {
		if a != strings.ToLower(a) || strings.HasPrefix(a, "data-") {
			continue
		}
		// most common class over allowed elements = global
		cnt := map[string]int{}
		for _, e := range t.AllowedElements {
			cnt[obs[e+" "+a]]++
		}
		best, bn := "reject", 0
		for c, n := range cnt {
			if n > bn || n == bn && c < best {
				best, bn = c, n
			}
		}
		if best != "reject" {
			t.Global[a] = best
		}
		for _, e := range lower {
			want := "reject"
			if allowed[e] {
				want = best
			}
			if got := obs[e+" "+a]; got != want {
				t.Specific[e+" "+a] = got
			}
		}
	}
	for _, rel := range linkRelCandidates {
		if c := classifyCell(`<link rel="`+rel+`" href="{{$.P0}}">`, false).String(); c != "Typed{TrustedResourceURL}" && c != "reject" {
			t.LinkRelURL = append(t.LinkRelURL, rel)
		}
	}
	sort.Strings(t.AllowedElements)
	b, _ := json.MarshalIndent(t, "", " ")
	path := filepath.Join(core.Root(), "policy", "reviewed_table.json")
	if err := os.WriteFile(path, append(b, '\n'), 0o644); err != nil {
		fmt.Println(err)
		return 2
	}
	fmt.Printf("wrote %s: %d allowed elements, %d global attributes, %d specific entries, %d content entries, %d link rel values\n", path, len(t.AllowedElements), len(t.Global), len(t.Specific), len(t.Content), len(t.LinkRelURL))
	for _, b := range t.Review() {
		fmt.Println("REVIEW:", b)
	}
	return 0
}

// c04AtLeast: is the observed class at least as strict as the reviewed one?
func c04AtLeast(o cellObs, reviewed string) bool {
	obs := o.String()
	if obs == reviewed || obs == "reject" || obs == "NoOutput" {
		return true
	}
	switch reviewed {
	case "reject":
		return false
	case "HTML":
		return obs == "Escaped"
	case "TRURLOrURL":
		return obs == "Typed{TrustedResourceURL}" || obs == "Typed{URL}" || obs == "Typed{TrustedResourceURL,URL}"
	case "URL":
		return obs == "Typed{URL}"
	}
	if strings.HasPrefix(reviewed, "Enum{") && o.Class == "Enum" {
		allowed := map[string]bool{}
		for _, w := range strings.Split(strings.TrimSuffix(strings.TrimPrefix(reviewed, "Enum{"), "}"), ",") {
			allowed[w] = true
		}
		for _, w := range o.Words {
			if !allowed[w] {
				return false
			}
		}
		return true
	}
	return false
}

func checkC04(r *core.Run) {
	tab, err := policy.LoadTable()
	if err != nil || len(tab.AllowedElements) == 0 {
		r.HarnessError("reviewed policy table missing or empty: %v", err)
		return
	}
	if bad := tab.Review(); len(bad) > 0 {
		r.HarnessError("reviewed policy table fails the HTML-standard review rules: %v", bad)
		return
	}
	var cells, accepted int64
	var classes sync.Map
	var judge2 func(text string, c, c2 bool, reviewed, discr, input string)
	judge := func(text string, c bool, reviewed, discr, input string) {
		judge2(text, c, false, reviewed, discr, input)
	}
	judge2 = func(text string, c, c2 bool, reviewed, discr, input string) {
		atomic.AddInt64(&cells, 1)
		obs := classifyCell(text, c, c2)
		if obs.Class != "reject" {
			atomic.AddInt64(&accepted, 1)
		}
		classes.Store(obs.String(), true)
		if !c04AtLeast(obs, reviewed) {
			r.Witness("weaker-than-reviewed-policy", discr, input, fmt.Sprintf("program %s (C=%v C2=%v): engine behaves as %s, the reviewed policy demands at least %s", core.Q(text), c, c2, obs, reviewed), c04Replay{text, c, c2, reviewed})
		}
		// URL cells must show sanitizer and normalizer effects; enum cells refuse static partial values
		if obs.Class == "URL" || obs.Class == "TRURLOrURL" {
			if cl, detail := c04URLEffects(text, c); cl != "" {
				r.Witness(cl, discr, input, detail, c04Replay{text, c, c2, reviewed})
			}
		}
	}
	els, ats := policy.Elements(), policy.Attributes()
	quotes := []string{"\"", "'", ""}
	type job struct{ el, at, q string }
	var jobs []job
	for _, e := range els {
		jobs = append(jobs, job{e, "", ""})
		for _, a := range ats {
			for _, q := range quotes {
				if !r.Thorough() && q == "'" && len(jobs)%3 != 0 {
					continue
				}
				jobs = append(jobs, job{e, a, q})
			}
		}
	}
	core.ParallelFor(len(jobs), func(i int) {
		if r.Expired() {
			return
		}
		j := jobs[i]
		le, la := strings.ToLower(j.el), strings.ToLower(j.at)
		reviewed := tab.Class(le, la)
		if j.at != "" && j.q == "" {
			reviewed = "reject" // unquoted attribute values
		}
		discr := "content"
		if j.at != "" {
			discr = "attr " + la
			if j.q == "" {
				discr = "unquoted"
			}
		}
		judge(cellText(j.el, j.at, j.q, ""), false, reviewed, discr, j.el+" "+j.at+" "+j.q)
		if j.at != "" && j.q == "\"" && strings.HasPrefix(reviewed, "Enum{") {
			judge(cellText(j.el, j.at, j.q, "x"), false, "reject", "enum-partial", j.el+" "+j.at+" partial")
		}
	})
	// tag / attribute name positions: always rejected
	for _, e := range []string{"a", "div", "img", "script", "x-y"} {
		for _, shape := range []string{"<E{{$.P0}}>", "<E {{$.P0}}>", "<E {{$.P0}}=\"x\">", "<E a{{$.P0}}=\"x\">", "<E a{{$.P0}}>", "</E{{$.P0}}>", "<E a=\"x\"{{$.P0}}>", "<E a=\"x\" {{$.P0}}=y>", "<E a {{$.P0}}>", "<E/{{$.P0}}>", "<E a=x{{$.P0}}>", "<E a={{$.P0}}>", "<E a= {{$.P0}} >", "<E a=\"x\"b{{$.P0}}=\"y\">"} {
			judge(strings.ReplaceAll(shape, "E", e), false, "reject", "name-position", shape+" "+e)
		}
	}
	// link rel values
	for _, rel := range linkRelCandidates {
		want := "Typed{TrustedResourceURL}"
		for _, ok := range tab.LinkRelURL {
			if ok == rel {
				want = "TRURLOrURL"
			}
		}
		for _, spelling := range []string{rel, strings.ToUpper(rel), " " + rel + "\t", rel + " stylesheet", "stylesheet " + rel, rel + "x", "x" + rel, rel + " unknown"} {
			w := want
			if spelling != rel && spelling != strings.ToUpper(rel) && spelling != " "+rel+"\t" {
				w = "Typed{TrustedResourceURL}"
			}
			judge(`<link rel="`+spelling+`" href="{{$.P0}}">`, false, w, "link-rel", "link rel="+spelling)
			judge(`<link href="{{$.P0}}" rel="`+spelling+`">`, false, "Typed{TrustedResourceURL}", "link-rel-after", "link href then rel="+spelling)
		}
	}
	// duplicated rel attributes: browsers keep the first one
	for _, a := range []string{"stylesheet", "icon", "alternate", "unknown", ""} {
		for _, b := range []string{"stylesheet", "icon", "alternate", "unknown", ""} {
			want := "Typed{TrustedResourceURL}"
			for _, ok := range tab.LinkRelURL {
				if ok == a {
					want = "TRURLOrURL"
				}
			}
			judge(`<link rel="`+a+`" rel="`+b+`" href="{{$.P0}}">`, false, want, "link-rel-duplicated", "link rel="+a+" rel="+b)
			judge(`<link rel='`+a+`' REL="`+b+`" title="x" href="{{$.P0}}">`, false, want, "link-rel-duplicated", "link rel="+a+" REL="+b)
		}
	}
	// element / attribute chosen by a conditional: accepted only if every alternative has the same reviewed class
	keyAttrs := []string{"href", "src", "title", "style", "id"}
	condEls := []string{"a", "img", "script", "iframe", "link", "track", "audio", "div", "base", "form", "input", "x-y", "embed", "area", "source", "video", "object", "textarea", "style", "button"}
	if !r.Thorough() {
		condEls = condEls[:12]
	}
	combine := func(classes ...string) string {
		c0 := classes[0]
		for _, c := range classes[1:] {
			if c != c0 {
				return "reject"
			}
		}
		return c0
	}
	type cj struct {
		text     string
		reviewed string
		discr    string
	}
	var cjobs []cj
	for _, e1 := range condEls {
		for _, e2 := range condEls {
			for _, a := range keyAttrs {
				cjobs = append(cjobs, cj{"{{if $.C}}<" + e1 + "{{else}}<" + e2 + "{{end}} " + a + "=\"{{$.P0}}\">", combine(tab.Class(e1, a), tab.Class(e2, a)), "conditional-element"})
			}
			cjobs = append(cjobs, cj{"{{if $.C}}<" + e1 + ">{{else}}<" + e2 + ">{{end}}{{$.P0}}", combine(tab.Class(e1, ""), tab.Class(e2, "")), "conditional-element-content"})
		}
	}
	condAttrs := []string{"href", "src", "title", "style", "id", "srcdoc", "onclick", "action", "srcset", "value", "data-x", "target", "dir", "xlink:href"}
	for _, e := range []string{"a", "img", "iframe"} {
		for _, a1 := range condAttrs {
			for _, a2 := range condAttrs {
				cjobs = append(cjobs, cj{"<" + e + " {{if $.C}}" + a1 + "{{else}}" + a2 + "{{end}}=\"{{$.P0}}\">", combine(tab.Class(e, a1), tab.Class(e, a2)), "conditional-attribute"})
			}
			cjobs = append(cjobs, cj{"<" + e + " {{if $.C}}" + a1 + "{{end}}=\"{{$.P0}}\">", "reject", "conditional-attribute-empty-branch"})
		}
	}
	// nested conditionals (three alternatives)
	nest := []string{"track", "img", "audio", "script", "a", "iframe", "video", "source"}
	for _, e1 := range nest {
		for _, e2 := range nest {
			for _, e3 := range nest {
				for _, a := range []string{"src", "href"} {
					rv := combine(tab.Class(e1, a), tab.Class(e2, a), tab.Class(e3, a))
					cjobs = append(cjobs, cj{"{{if $.C}}{{if $.C2}}<" + e1 + "{{else}}<" + e2 + "{{end}}{{else}}<" + e3 + "{{end}} " + a + "=\"{{$.P0}}\">", rv, "nested-conditional-element"})
					cjobs = append(cjobs, cj{"{{if $.C}}<" + e3 + "{{else}}{{if $.C2}}<" + e1 + "{{else}}<" + e2 + "{{end}}{{end}} " + a + "=\"{{$.P0}}\">", rv, "nested-conditional-element"})
				}
			}
		}
	}
	// '>' after the conditional (a void alternative resets the element), content of nested alternatives
	for _, e1 := range condEls {
		for _, e2 := range condEls {
			cjobs = append(cjobs, cj{"{{if $.C}}<" + e1 + "{{else}}<" + e2 + "{{end}}>{{$.P0}}", combine(tab.Class(e1, ""), tab.Class(e2, "")), "conditional-element-then-content"})
			cjobs = append(cjobs, cj{"{{if $.C}}<" + e1 + "{{else}}<" + e2 + "{{end}} title=\"x\">{{$.P0}}", combine(tab.Class(e1, ""), tab.Class(e2, "")), "conditional-element-then-content"})
		}
	}
	contentEls := []string{"script", "style", "span", "title", "textarea", "br", "a", "iframe"}
	for _, e1 := range contentEls {
		for _, e2 := range contentEls {
			for _, e3 := range contentEls {
				rv := combine(tab.Class(e1, ""), tab.Class(e2, ""), tab.Class(e3, ""))
				cjobs = append(cjobs, cj{"{{if $.C}}<" + e3 + "{{else}}{{if $.C2}}<" + e1 + "{{else}}<" + e2 + "{{end}}{{end}}>{{$.P0}}", rv, "nested-conditional-element-content"})
				cjobs = append(cjobs, cj{"{{if $.C}}{{if $.C2}}<" + e1 + "{{else}}<" + e2 + "{{end}}{{else}}<" + e3 + "{{end}}>{{$.P0}}", rv, "nested-conditional-element-content"})
			}
		}
	}
	// the same conditionals after a plain action in the context of one alternative (an analyser that remembers its
	// decision for a context must not reuse it for the conditional one)
	for _, e1 := range []string{"img", "script", "a", "iframe", "audio", "link"} {
		for _, e2 := range []string{"img", "script", "a", "iframe", "audio", "link"} {
			for _, a := range []string{"src", "href", "title"} {
				rv := combine(tab.Class(e1, a), tab.Class(e2, a))
				for _, prime := range []string{e1, e2} {
					cjobs = append(cjobs, cj{"<" + prime + " " + a + "=\"{{$.P0}}\">{{if $.C}}<" + e1 + "{{else}}<" + e2 + "{{end}} " + a + "=\"{{$.P0}}\">", rv, "conditional-element-after-plain-action"})
				}
			}
		}
	}
	for _, x := range []string{"title", "href", "src", "id", "style"} {
		for _, y := range []string{"title", "href", "src", "id", "style"} {
			rv := combine(tab.Class("a", x), tab.Class("a", y))
			for _, prime := range []string{x, y} {
				cjobs = append(cjobs, cj{"<a " + prime + "=\"{{$.P0}}\">x</a><a {{if $.C}}" + x + "{{else}}" + y + "{{end}}=\"{{$.P0}}\">", rv, "conditional-attribute-after-plain-action"})
			}
		}
	}
	// attribute names assembled from pieces: the value must be judged by the name a browser sees
	for _, e := range []string{"a", "img"} {
		for _, a1 := range []string{"title", "data-x", "alt", "href", "x"} {
			for _, a2 := range []string{"onclick", "href", "src", "style", "srcdoc", "title", "id"} {
				cjobs = append(cjobs, cj{"<" + e + " " + a1 + "{{if $.C}} {{end}}" + a2 + "=\"{{$.P0}}\">", combine(tab.Class(e, a2), tab.Class(e, a1+a2)), "attribute-name-in-pieces"})
				cjobs = append(cjobs, cj{"<" + e + " " + a1 + "{{if $.C}}=\"v\" {{end}}" + a2 + "=\"{{$.P0}}\">", combine(tab.Class(e, a2), tab.Class(e, a1+a2)), "attribute-name-in-pieces"})
				cjobs = append(cjobs, cj{"<" + e + " " + a1 + "{{if $.C}}\n{{else}}\t{{end}}" + a2 + "=\"{{$.P0}}\">", tab.Class(e, a2), "attribute-name-in-pieces"})
			}
		}
	}
	// rel / type chosen by a conditional: the strictest alternative decides
	for _, alt := range [][2]string{{"icon", "stylesheet"}, {"stylesheet", "icon"}, {"icon", "alternate stylesheet"}, {"icon", "x"}, {"icon", ""}} {
		cjobs = append(cjobs, cj{"<link {{if $.C}}rel=\"" + alt[0] + "\"{{else}}rel=\"" + alt[1] + "\"{{end}} href=\"{{$.P0}}\">", "Typed{TrustedResourceURL}", "link-rel-conditional"})
		cjobs = append(cjobs, cj{"<link rel=\"{{if $.C}}" + alt[0] + "{{else}}" + alt[1] + "{{end}}\" href=\"{{$.P0}}\">", "Typed{TrustedResourceURL}", "link-rel-conditional"})
	}
	// characters that are not HTML white space between "=" and a quote: the value is unquoted for a tokenizer
	for _, sp := range []string{"\v", "\u00a0", "\x00", "\u2028", "\x1c", "\u0085"} {
		for _, q := range []string{"\"", "'"} {
			cjobs = append(cjobs, cj{"<a title=" + sp + q + "{{$.P0}}" + q + ">", "reject", "non-space-before-quoted-value"})
			cjobs = append(cjobs, cj{"<a href= " + sp + q + "{{$.P0}}" + q + ">", "reject", "non-space-before-quoted-value"})
			cjobs = append(cjobs, cj{"<a" + sp + "href=" + q + "{{$.P0}}" + q + ">", "reject", "non-space-before-quoted-value"})
		}
	}
	// a jump out of a loop body leaves the context of the jump, not that of the end of the body
	for _, jmp := range []string{"{{break}}", "{{continue}}"} {
		for _, e := range []string{"script", "style", "textarea", "title", "xmp"} {
			cjobs = append(cjobs, cj{"{{range $.L}}<" + e + ">{{if $.C}}" + jmp + "{{end}}</" + e + ">{{end}}{{$.P0}}", "reject", "jump-out-of-loop-body"})
			cjobs = append(cjobs, cj{"{{range $.L}}{{$.P0}}<" + e + ">{{if $.C}}" + jmp + "{{end}}</" + e + ">{{end}}", "reject", "jump-out-of-loop-body"})
		}
		for _, a := range []string{"href", "title", "onclick", "style"} {
			cjobs = append(cjobs, cj{"{{range $.L}}<a " + a + "=\"{{if $.C}}" + jmp + "{{end}}\">x</a>{{end}}{{$.P0}}", "reject", "jump-out-of-loop-body"})
		}
	}
	// an earlier attribute of the element must not weaken what a later attribute or the content demands (script type,
	// language, link as, input type, ... are values an engine could be tempted to interpret)
	priors := []string{`type="module"`, `type="MODULE"`, `type="text/ecmascript; charset=utf-8"`, `type="importmap"`, `type="text/html"`, `type="text/template"`, `type="text/x-template"`, `type="application/json"`,
		`type="application/ld+json"`, `type="text/plain"`, `type=""`, `type="speculationrules"`, `type="image"`, `type="text/css"`, `language="vbscript"`, `as="image"`, `as="style"`, `media="print"`, `name="x"`, `is="x-y"`,
		`itemprop="url"`, `sandbox=""`, `download=""`, `defer`, `data-x="1"`, `http-equiv="refresh"`, `charset="utf-8"`, `nomodule`, `crossorigin="anonymous"`}
	for _, e := range []string{"script", "style", "a", "iframe", "img", "object", "embed", "input", "button", "meta", "base", "form", "textarea", "title", "source", "area"} {
		for _, pa := range priors {
			for _, target := range []string{"", "src", "href", "action", "formaction", "value", "srcset", "content", "data", "style", "id"} {
				rv := tab.Class(e, target)
				for _, el := range []string{e + " " + pa, e + " title=\"x\" " + pa} {
					cjobs = append(cjobs, cj{cellText(el, target, "\"", ""), rv, "earlier-attribute"})
				}
			}
		}
	}
	// a solidus before '>' does not close a non-void element for a tokenizer: the action is still in its content
	voids := map[string]bool{"area": true, "base": true, "br": true, "col": true, "embed": true, "hr": true, "img": true, "input": true, "keygen": true, "link": true, "meta": true, "param": true, "source": true, "track": true, "wbr": true}
	for _, e := range els {
		le := strings.ToLower(e)
		if voids[le] {
			continue
		}
		for _, open := range []string{"<" + e + "/>", "<" + e + " />", "<" + e + " title=\"x\"/>", "<" + e + " title=x />"} {
			cjobs = append(cjobs, cj{open + "{{$.P0}}</" + e + ">", tab.Class(le, ""), "self-closing-syntax"})
		}
	}
	// else-if chains and nested conditionals over attribute names: every order of three alternatives
	for _, e := range []string{"a", "img"} {
		alts := []string{"title", "href", "src", "id"}
		for _, x := range alts {
			for _, y := range alts {
				for _, z := range alts {
					rv := combine(tab.Class(e, x), tab.Class(e, y), tab.Class(e, z))
					cjobs = append(cjobs, cj{"<" + e + " {{if $.C}}" + x + "{{else if $.C2}}" + y + "{{else}}" + z + "{{end}}=\"{{$.P0}}\">", rv, "else-if-attribute-names"})
					cjobs = append(cjobs, cj{"<" + e + " {{if $.C}}{{if $.C2}}" + x + "{{else}}" + y + "{{end}}{{else}}" + z + "{{end}}=\"{{$.P0}}\">", rv, "else-if-attribute-names"})
				}
			}
		}
	}
	// names split over several text nodes by constructs that emit nothing: the value must be judged by the name a
	// browser sees, or refused
	splitters := []string{"{{$x := 1}}", "{{if $.C}}{{end}}", "{{/* c */}}", "{{with $.C}}{{end}}", "{{range $.L}}{{end}}"}
	for _, sp := range splitters {
		for _, tn := range [][2]string{{"s", "cript"}, {"s", "tyle"}, {"scr", "ipt"}, {"i", "frame"}, {"t", "extarea"}, {"t", "itle"}, {"a", "udio"}, {"x", "mp"}, {"b", "utton"}, {"spa", "n"}} {
			full := tn[0] + tn[1]
			cjobs = append(cjobs, cj{"<" + tn[0] + sp + tn[1] + ">{{$.P0}}</" + full + ">", tab.Class(full, ""), "tag-name-in-pieces"})
			cjobs = append(cjobs, cj{"<" + tn[0] + sp + tn[1] + " title=\"{{$.P0}}\"></" + full + ">", tab.Class(full, "title"), "tag-name-in-pieces"})
			cjobs = append(cjobs, cj{"<" + tn[0] + sp + tn[1] + ">x = \"<p>\";{{$.P0}}</p></" + full + ">", combine(tab.Class(full, ""), tab.Class("p", "")), "tag-name-in-pieces"})
		}
		for _, an := range [][3]string{{"img", "src", "set"}, {"img", "alt", "x"}, {"iframe", "src", "doc"}, {"a", "title", "x"}, {"button", "for", "maction"}, {"a", "hre", "f"}, {"a", "data-", "x"}, {"a", "data-x", "y"},
			{"a", "o", "nclick"}, {"a", "title", "/"}, {"a", "data-x", "/"}, {"a", "href", "/"}, {"a", "title", "/x"}} {
			rv := tab.Class(an[0], an[1]+an[2])
			if strings.Contains(an[2], "/") {
				rv = "reject" // the solidus ends the name for a tokenizer: the quoted text is parsed as further attributes
			}
			for _, q := range []string{"\"", "'"} {
				cjobs = append(cjobs, cj{"<" + an[0] + " " + an[1] + sp + an[2] + "=" + q + "{{$.P0}}" + q + ">", rv, "attribute-name-in-pieces"})
			}
		}
	}
	for _, tn := range [][2]string{{"s", "cript"}, {"s", "tyle"}, {"t", "extarea"}, {"spa", "n"}} {
		full := tn[0] + tn[1]
		rv := combine(tab.Class(full, ""), tab.Class(tn[0], ""))
		for _, mid := range []string{"{{if $.C}} {{end}}" + tn[1], "{{if $.C}}" + tn[1] + "{{end}}", "{{if $.C}} x{{end}}" + tn[1], "{{if $.C}}{{else}} x {{end}}" + tn[1], "{{if $.C}}" + tn[1] + "{{else}} {{end}}"} {
			cjobs = append(cjobs, cj{"<" + tn[0] + mid + ">{{$.P0}}</" + full + ">", rv, "tag-name-in-pieces"})
		}
	}
	// the same through a called template that supplies the rest of the name
	cjobs = append(cjobs, cj{"{{define \"n\"}}cript{{end}}<s {{template \"n\"}}></s><s{{template \"n\"}}>{{$.P0}}</script>", tab.Class("script", ""), "tag-name-in-pieces"})
	cjobs = append(cjobs, cj{"{{define \"n\"}}/{{end}}<a title{{template \"n\"}}=\"{{$.P0}}\">", "reject", "attribute-name-in-pieces"})
	// enumerated contexts: a static partial value in either branch
	for _, sh := range []string{"{{if $.C}}{{else}}x{{end}}§", "{{if $.C}}x{{end}}§", "{{if $.C}}{{else}}{{if $.C2}}{{else}}x{{end}}{{end}}§", "{{with $.C}}{{else}}x{{end}}§", "§{{if $.C}}{{else}}x{{end}}", "§x", "§{{if $.C}}x{{end}}"} {
		for _, ea := range [][2]string{{"a", "target"}, {"div", "dir"}, {"img", "loading"}, {"script", "async"}} {
			discr := "enum-partial-value-in-branch"
			if strings.HasPrefix(sh, "§") {
				discr = "enum-static-suffix"
			}
			cjobs = append(cjobs, cj{"<" + ea[0] + " " + ea[1] + "=\"" + strings.Replace(sh, "§", "{{$.P0}}", 1) + "\">", "reject", discr})
		}
	}
	// link rel assembled from pieces: any alternative that makes it a style sheet demands a TrustedResourceURL
	for _, relv := range []string{"{{if $.C}}stylesheet {{end}}icon", "{{if $.C}}{{else}}stylesheet {{end}}icon", "stylesheet {{$x := 1}}icon", "icon{{$x := 1}} stylesheet", "stylesheet{{if $.C}} {{end}} alternate",
		"{{if $.C}}stylesheet{{else}}icon{{end}}", "{{if $.C}}icon{{else}}stylesheet{{end}}", "icon {{if $.C}}{{else}}stylesheet{{end}}", "{{with $.C}}{{else}}stylesheet {{end}}icon", "style{{$x := 1}}sheet", "{{$.W}} icon", "icon {{$.W}}"} {
		cjobs = append(cjobs, cj{"<link rel=\"" + relv + "\" href=\"{{$.P0}}\">", tab.Class("link", "href"), "link-rel-in-pieces"})
	}
	core.ParallelFor(len(cjobs), func(i int) {
		if r.Expired() {
			return
		}
		j := cjobs[i]
		for _, c := range []bool{true, false} {
			for _, c2 := range []bool{true, false} {
				if c2 && !strings.Contains(j.text, "$.C2") {
					continue
				}
				judge2(j.text, c, c2, j.reviewed, j.discr, j.text)
			}
		}
	})
	if r.Expired() {
		r.NotExhaustive("internal deadline reached")
	}
	var ncl int64
	var cls []string
	classes.Range(func(k, _ interface{}) bool { ncl++; cls = append(cls, k.(string)); return true })
	sort.Strings(cls)
	r.Set("states", cells)
	r.Set("transitions", cells*14)
	r.Set("traces_validated_against_impl", cells)
	r.Set("cells_classified", cells)
	r.Set("cells_accepting_something", accepted)
	r.Set("observed_classes", cls)
	r.Set("space", fmt.Sprintf("%d elements x %d attributes x {double, single, unquoted} + element content + 70 name-position programs + %d link rel spellings + %d conditional programs x {C true,false}; each cell classified black-box by 14+ probe values", len(els), len(ats), len(linkRelCandidates)*16, len(cjobs)))
	r.Sample(map[string]string{"program": `<a href="{{$.P0}}">`, "reviewed": tab.Class("a", "href")})
	r.Sample(map[string]string{"program": `{{if $.C}}<img{{else}}<script{{end}} src="{{$.P0}}">`, "reviewed": "reject"})
	r.Assume("policy/reviewed_table.json is the reviewed policy: produced by black-box classification of the pinned tree, then checked against HTML-standard rules (policy.Table.Review) at every run")
	if ncl < 8 {
		r.HarnessError("vacuous: only %d observed classes", ncl)
	}
}
