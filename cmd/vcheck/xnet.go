package main

import (
	"hash/fnv"
	"strings"
	"sync/atomic"

	"verif/internal/tmplx"
	xhtml "verif/third_party/xhtml"
)

// xnetStruct tokenizes with golang.org/x/net/html (vendored) and renders tags the same way c01Struct does.
func xnetStruct(s string) []string {
	z := xhtml.NewTokenizer(strings.NewReader(s))
	var out []string
	for {
		tt := z.Next()
		switch tt {
		case xhtml.ErrorToken:
			return out
		case xhtml.StartTagToken, xhtml.SelfClosingTagToken:
			name, hasAttr := z.TagName()
			t := "<" + string(name)
			seen := map[string]bool{}
			for hasAttr {
				var k []byte
				k, _, hasAttr = z.TagAttr()
				if !seen[string(k)] {
					t += " " + string(k)
				}
				seen[string(k)] = true
			}
			out = append(out, t+">")
		case xhtml.EndTagToken:
			name, _ := z.TagName()
			out = append(out, "</"+string(name)+">")
		case xhtml.CommentToken:
			out = append(out, "<!---->")
		case xhtml.DoctypeToken:
			out = append(out, "<!DOCTYPE>")
		}
	}
}

// c01XNet cross-checks O1 against x/net/html on one eighth of the outputs (by hash). Disagreements are
// only counted (O1, validated on html5lib-tests, decides).
func c01XNet(st *c01stats, out string) {
	h := fnv.New32a()
	h.Write([]byte(out))
	if h.Sum32()%8 != 0 {
		return
	}
	atomic.AddInt64(&st.xnetCompared, 1)
	res := tmplx.Tokenize(out, false)
	var mine []string
	for _, t := range c01Struct(res) {
		// x/net drops duplicate attributes silently; c01Struct keeps names in order incl. duplicates
		mine = append(mine, t)
	}
	theirs := xnetStruct(out)
	if strings.Join(dedupAttrs(mine), "\x00") != strings.Join(theirs, "\x00") {
		atomic.AddInt64(&st.xnetDisagree, 1)
	}
}

func dedupAttrs(ts []string) []string {
	out := make([]string, len(ts))
	for i, t := range ts {
		if !strings.HasPrefix(t, "<") || strings.HasPrefix(t, "</") || strings.HasPrefix(t, "<!") {
			out[i] = t
			continue
		}
		parts := strings.Split(strings.TrimSuffix(t, ">"), " ")
		seen := map[string]bool{}
		var keep []string
		for j, p := range parts {
			if j == 0 || !seen[p] {
				keep = append(keep, p)
			}
			if j > 0 {
				seen[p] = true
			}
		}
		out[i] = strings.Join(keep, " ") + ">"
	}
	return out
}
