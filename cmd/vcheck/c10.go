package main

import (
	"encoding/json"
	"fmt"
	stdhtml "html"
	"strings"
	"sync/atomic"
	"unicode/utf8"

	"github.com/google/safehtml"

	"verif/internal/core"
	"verif/internal/enum"
	"verif/internal/oracle/htmltok"
	"verif/internal/oracle/ivalid"
)

func init() {
	register("C10", "exploration", checkC10)
	replayers["C10"] = func(raw json.RawMessage) (bool, string) {
		var in struct{ Input string }
		json.Unmarshal(raw, &in)
		cl, what := c10Judge(in.Input)
		return cl != "", fmt.Sprintf("HTMLEscaped(%q) = %q; %s %s", in.Input, safehtml.HTMLEscaped(in.Input).String(), cl, what)
	}
}

// c10Expected is the reference result: coerce, then escape the five characters.
func c10Expected(s string) (coerced string, escaped string) {
	rs := ivalid.Coerce(s)
	coerced = ivalid.Encode(rs)
	var b strings.Builder
	for _, r := range rs {
		switch r {
		case '&':
			b.WriteString("&amp;")
		case '<':
			b.WriteString("&lt;")
		case '>':
			b.WriteString("&gt;")
		case '"':
			b.WriteString("&#34;")
		case '\'':
			b.WriteString("&#39;")
		default:
			b.WriteString(ivalid.Encode([]rune{r}))
		}
	}
	return coerced, b.String()
}

var c10Refs = []string{"&amp;", "&lt;", "&gt;", "&#34;", "&#39;", "&quot;", "&apos;", "&#x22;", "&#x27;", "&#X22;", "&#X27;", "&#38;", "&#60;", "&#62;"}

// c10Judge returns the failed clause ("" if none) and an explanation.
func c10Judge(s string) (string, string) {
	out := safehtml.HTMLEscaped(s).String()
	coerced, _ := c10Expected(s)
	// clause alphabet: no < > " ' ; every & starts one of the emitted references
	for i := 0; i < len(out); i++ {
		switch out[i] {
		case '<', '>', '"', '\'':
			return "alphabet", fmt.Sprintf("output contains %q at %d", out[i], i)
		case '&':
			ok := false
			for _, ref := range c10Refs {
				if strings.HasPrefix(out[i:], ref) {
					ok = true
					break
				}
			}
			if !ok {
				return "alphabet", fmt.Sprintf("'&' at %d does not start an emitted reference", i)
			}
		}
	}
	// clause interchange-valid
	if !utf8.ValidString(out) {
		return "utf8", "output is not valid UTF-8"
	}
	for _, r := range ivalid.Decode(out) {
		if ivalid.Bad(r) {
			return "interchange", fmt.Sprintf("output contains U+%04X", r)
		}
	}
	// clause round trip
	if got := stdhtml.UnescapeString(out); got != coerced {
		return "roundtrip", fmt.Sprintf("unescape(out)=%q want %q", got, coerced)
	}
	// clause tokenization: one text run / one attribute value
	want := string(htmltok.Preprocess([]byte(coerced)))
	for _, ctx := range c10Contexts {
		doc := ctx.pre + out + ctx.post
		res := htmltok.Tokenize([]byte(doc), htmltok.Options{AutoSwitch: true, Scripting: true, Preprocess: true})
		if why := ctx.check(res, want); why != "" {
			return "tokenize-" + ctx.name, why + " in " + core.Q(doc)
		}
	}
	return "", ""
}

type c10ctx struct {
	name, pre, post string
	check           func(res htmltok.Result, want string) string
}

func textCtx(tag string) func(res htmltok.Result, want string) string {
	return func(res htmltok.Result, want string) string {
		ts := res.Tokens
		if res.Final != htmltok.Data {
			return "final state " + res.Final.String()
		}
		if want == "" {
			if len(ts) != 2 || ts[0].Type != htmltok.StartTag || ts[1].Type != htmltok.EndTag {
				return fmt.Sprintf("expected <%s></%s>, got %d tokens", tag, tag, len(ts))
			}
			return ""
		}
		if len(ts) != 3 || ts[0].Type != htmltok.StartTag || ts[0].Name != tag || len(ts[0].Attrs) != 0 ||
			ts[1].Type != htmltok.Text || ts[2].Type != htmltok.EndTag || ts[2].Name != tag {
			return fmt.Sprintf("expected start,text,end; got %d tokens", len(ts))
		}
		if ts[1].Data != want {
			return fmt.Sprintf("text %q want %q", ts[1].Data, want)
		}
		return ""
	}
}

func attrCtx(res htmltok.Result, want string) string {
	ts := res.Tokens
	if res.Final != htmltok.Data {
		return "final state " + res.Final.String()
	}
	if len(ts) != 1 || ts[0].Type != htmltok.StartTag || ts[0].Name != "a" || len(ts[0].Attrs) != 1 || ts[0].Attrs[0].Name != "title" {
		return fmt.Sprintf("expected one start tag with one attribute; got %d tokens", len(ts))
	}
	if ts[0].Attrs[0].Value != want {
		return fmt.Sprintf("attribute value %q want %q", ts[0].Attrs[0].Value, want)
	}
	return ""
}

var c10Contexts = []c10ctx{
	{"data", "<p>", "</p>", textCtx("p")},
	{"rcdata-textarea", "<textarea>", "</textarea>", textCtx("textarea")},
	{"rcdata-title", "<title>", "</title>", textCtx("title")},
	{"attr-dq", `<a title="`, `">`, attrCtx},
	{"attr-sq", `<a title='`, `'>`, attrCtx},
}

func checkC10(r *core.Run) {
	var evals, nontriv int64
	eval := func(layer, s string) {
		atomic.AddInt64(&evals, 1)
		if p, msg := core.Try(func() { safehtml.HTMLEscaped(s) }); p {
			r.Witness("panic", "", s, fmt.Sprintf("HTMLEscaped(%s) panicked: %s", core.Q(s), msg), map[string]string{"Input": s})
			return
		}
		out := safehtml.HTMLEscaped(s).String()
		if out != s {
			atomic.AddInt64(&nontriv, 1)
		}
		if cl, what := c10Judge(s); cl != "" {
			r.Witness(cl, "", s, fmt.Sprintf("HTMLEscaped(%s)=%s: %s", core.Q(s), core.Q(out), what), map[string]string{"Input": s})
		}
	}
	// hidden state between calls (runs first, sequentially)
	pairLayer(r, strPairItems([]string{"", "a", "<", ">", "&", "'", "\"", "&amp;", "&#39;", "\x00", "\xff", "\xc2", "\ufdd0", "\U0001fffe", "\u00e9", "a<b", "<<", "''", "&&",
		strings.Repeat("a", 255) + "&", strings.Repeat("a", 300), strings.Repeat("<", 64), strings.Repeat("\u00e9", 127) + "'", "\r\n", "\x7f", "\xed\xa0\x80"}, c10Judge))
	// L-full: every byte string up to length 2 (quick) / 3 (thorough)
	n := 2
	if r.Thorough() {
		n = 3
	}
	st := enum.Seqs(enum.Bytes256(), n, func(s string, _ []int) { eval("bytes", s) })
	r.Set("layer_bytes", fmt.Sprintf("all %d-symbol byte alphabet strings of length<=%d: %d", 256, n, st.States))
	r.Sample(map[string]string{"layer": "bytes", "input": "\x7f<", "output": safehtml.HTMLEscaped("\x7f<").String()})

	// every code point (and every 21-bit value incl. surrogates and > U+10FFFF in generic UTF-8 layout),
	// alone and between specials
	var cps int64
	core.ParallelFor(0x220, func(blk int) {
		for v := uint32(blk) << 12; v < uint32(blk+1)<<12 && v < 0x200000; v++ {
			enc := ivalid.EncodeAny(v)
			eval("codepoint", enc)
			eval("codepoint", "a"+enc+"<")
			eval("codepoint", "&"+enc+"'")
			atomic.AddInt64(&cps, 1)
		}
	})
	r.Set("layer_codepoints", fmt.Sprintf("every 21-bit value 0..0x1FFFFF in UTF-8 bit layout (scalars, surrogates, beyond U+10FFFF) in 3 contexts: %d values", cps))

	// overlong / truncated 3- and 4-byte forms over byte classes
	lead := []byte{0xC0, 0xC1, 0xC2, 0xDF, 0xE0, 0xE1, 0xED, 0xEF, 0xF0, 0xF1, 0xF4, 0xF5, 0xF7, 0xF8, 0xFB, 0xFC, 0xFE, 0xFF}
	tail := []string{"", "\x7f", "\x80", "\x8f", "\x90", "\x9f", "\xa0", "\xbf", "\xc0", "a", "<", "&"}
	var ill int64
	core.ParallelFor(len(lead), func(i int) {
		for _, a := range tail {
			for _, b := range tail {
				for _, c := range tail {
					for _, d := range tail {
						eval("illformed", string([]byte{lead[i]})+a+b+c+d)
						atomic.AddInt64(&ill, 1)
					}
				}
			}
		}
	})
	r.Set("layer_illformed", fmt.Sprintf("%d lead bytes x 4 trailing positions over %d byte classes: %d", len(lead), len(tail), ill))

	// L-class: representatives, longer strings (re-escaping, reference-like text, mixtures)
	classAlpha := []string{"a", "<", ">", "&", "\"", "'", ";", "#", "x", "3", "\x00", "\t", "\r", "\x7f", "\xc2", "\x80", "\xef\xbf\xbe", "\xef\xb7\x90", "é", "\U0001F600", "amp", "lt", "\xed\xa0\x80"}
	cl := 3
	if r.Thorough() {
		cl = 5
	}
	st2 := enum.Seqs(classAlpha, cl, func(s string, _ []int) { eval("class", s) })
	r.Set("layer_class", fmt.Sprintf("%d class symbols, length<=%d: %d", len(classAlpha), cl, st2.States))

	// length / alignment layer
	nl := enum.Long([]string{"a", "\u00e9", "\u65e5", "\U0001F600", "\xff", " ", "&"}, []string{"<", "'", "\"", "&", "\x7f", "\x00", "\xc2", "\xef\xbf\xbe", "<'\x00", "&amp;", "\r\n"}, 300, func(s string) { eval("long", s) })
	r.Set("layer_long", fmt.Sprintf("7 padding units x 11 cores x every padding length 0..300 x 3 placements: %d", nl))
	// HTMLConcat is plain concatenation
	vals := []string{"", "a", "<", "&amp;", "\x00", "\xff", "\"'", "&"}
	var hs []safehtml.HTML
	for _, v := range vals {
		hs = append(hs, safehtml.HTMLEscaped(v))
	}
	var cc int64
	enum.Tuples([]int{len(hs) + 1, len(hs) + 1, len(hs) + 1}, func(ix []int) {
		var args []safehtml.HTML
		want := ""
		for _, i := range ix {
			if i < len(hs) {
				args = append(args, hs[i])
				want += hs[i].String()
			}
		}
		cc++
		atomic.AddInt64(&evals, 1)
		if got := safehtml.HTMLConcat(args...).String(); got != want {
			r.Witness("concat", "", want, fmt.Sprintf("HTMLConcat=%q want %q", got, want), map[string]string{"Input": want})
		}
	})
	r.Set("layer_concat", fmt.Sprintf("all tuples of <=3 of %d values: %d", len(hs), cc))

	r.Set("evaluations", evals)
	r.Set("distinct_nontrivial", nontriv)
	r.Set("rule", "inputs are enumerated exhaustively per layer (see layer_* keys); every input is distinct within a layer; an input is non-trivial when HTMLEscaped(s) != s, i.e. coercion or escaping changed it")
	r.Sample(map[string]string{"layer": "class", "input": "&amp\x00'", "output": safehtml.HTMLEscaped("&amp\x00'").String()})
	r.Assume("oracle O6 (reference UTF-8 decoder + interchange-valid ranges) and O1 (tokenizer, html5lib-validated) are correct")
	r.Assume("strings longer than the bounds behave like their bounded substrings: the function is a per-code-point map (checked for all code points and all byte pairs/triples)")
}
