package main

import (
	"encoding/json"
	"errors"
	"fmt"
	"strings"
	"sync"
	"sync/atomic"

	"verif/internal/core"
	"verif/internal/oracle/htmltok"
	"verif/internal/oracle/srcset"
	"verif/internal/oracle/whaturl"
	"verif/internal/tmplx"
)

func init() {
	register("C02", "model_checking", checkC02)
	replayers["C02"] = func(raw json.RawMessage) (bool, string) {
		var in c02Replay
		json.Unmarshal(raw, &in)
		return c02ReplayCase(in)
	}
}

type c02Replay struct {
	Program string
	Parts   []string // payload parts: bound to P0.. (and to the ranged list L when RangeParts)
	Range   bool     // parts are the elements of L
	C, W    bool
	Kind    string // how each part is handed to the template: "" plain string, or one of c02Kinds
}

// c02Kinds: Go values whose text (what fmt prints after the sanitizers' dereferencing) is the untrusted string.
var c02Kinds = append([]string{"ptr", "ptrptr", "stringer", "stringer-ptr", "error", "named-string", "iface-in-struct-field"}, numericKinds...)

type c02Stringer struct{ s string }

func (v c02Stringer) String() string { return v.s }

type c02PtrStringer struct{ s string }

func (v *c02PtrStringer) String() string { return v.s }

type c02Named string

func c02Wrap(kind, s string) interface{} {
	if v, ok := bindNumeric(kind, s); ok {
		return v
	}
	switch kind {
	case "ptr":
		return &s
	case "ptrptr":
		p := &s
		return &p
	case "stringer":
		return c02Stringer{s}
	case "stringer-ptr":
		return &c02PtrStringer{s}
	case "error":
		return errors.New(s)
	case "named-string":
		return c02Named(s)
	case "iface-in-struct-field":
		var v interface{} = fmt.Stringer(c02Stringer{s})
		return v
	}
	return s
}

const c02Marker = "zQz"

// URL-valued attribute names checked for the javascript scheme in every output.
var c02URLAttrs = map[string]bool{"href": true, "src": true, "action": true, "formaction": true, "xlink:href": true}

// (element, attribute) pairs whose URL loads code or styles: untrusted data must not sit at the origin-determining start.
func c02CodeURL(el, attr string, attrs []htmltok.Attr) bool {
	switch {
	case attr == "src" && (el == "script" || el == "iframe" || el == "frame" || el == "embed"):
		return true
	case attr == "data" && el == "object":
		return true
	case attr == "href" && el == "base":
		return true
	case attr == "href" && el == "link":
		for _, a := range attrs {
			if a.Name == "rel" && !a.Dup {
				for _, tok := range strings.Fields(strings.ToLower(a.Value)) {
					if tok == "stylesheet" {
						return true
					}
				}
			}
		}
	}
	return false
}

type c02Finding struct{ clause, detail string }

// c02Judge inspects one successful output. authorJS: attribute values that already have the javascript scheme
// in the author's own rendering are the author's doing and are skipped.
func c02Judge(out string) []c02Finding {
	var fs []c02Finding
	res := tmplx.Tokenize(out, false)
	var lastStart string
	for _, t := range res.Tokens {
		switch t.Type {
		case htmltok.StartTag:
			lastStart = t.Name
			for _, a := range t.Attrs {
				if a.Dup {
					continue
				}
				hasMarker := strings.Contains(a.Value, c02Marker)
				if hasMarker && (strings.HasPrefix(a.Name, "on") || a.Name == "style" || a.Name == "srcdoc") {
					fs = append(fs, c02Finding{"untrusted-in-code-attribute", fmt.Sprintf("untrusted data in %s attribute of <%s>: %q", a.Name, t.Name, a.Value)})
				}
				if hasMarker && c02CodeURL(t.Name, a.Name, t.Attrs) {
					i := strings.Index(a.Value, c02Marker)
					if pre := a.Value[:i]; !c13SafePrefix(pre) || pre == "/" {
						fs = append(fs, c02Finding{"untrusted-at-code-url-start", fmt.Sprintf("untrusted data at the origin-determining start of <%s %s>: %q", t.Name, a.Name, a.Value)})
					}
				}
				if c02URLAttrs[a.Name] && whaturl.IsJavascript(a.Value) {
					fs = append(fs, c02Finding{"javascript-url", fmt.Sprintf("<%s %s> decodes to %q, which a browser parses with the javascript scheme", t.Name, a.Name, a.Value)})
				}
				if a.Name == "srcset" || a.Name == "imagesrcset" {
					for _, c := range srcset.Parse(a.Value) {
						if whaturl.IsJavascript(c.URL) {
							fs = append(fs, c02Finding{"javascript-url", fmt.Sprintf("<%s %s> candidate %q has the javascript scheme (value %q)", t.Name, a.Name, c.URL, a.Value)})
						}
					}
				}
			}
		case htmltok.Text:
			if strings.Contains(t.Data, c02Marker) && (t.Mode == "script" || t.Mode == "rawtext" && lastStart == "style") {
				fs = append(fs, c02Finding{"untrusted-in-code-element", fmt.Sprintf("untrusted data in the body of <%s>: %q", lastStart, t.Data)})
			}
		case htmltok.Comment:
			if strings.Contains(t.Data, c02Marker) {
				fs = append(fs, c02Finding{"untrusted-in-comment", fmt.Sprintf("untrusted data inside a comment: %q", t.Data)})
			}
		}
	}
	return fs
}

func c02Data(in c02Replay) tmplx.Data {
	d := tmplx.Data{C: in.C}
	if in.W {
		d.W = 1
	}
	if in.Range {
		for _, p := range in.Parts {
			d.L = append(d.L, c02Wrap(in.Kind, p))
		}
		return d
	}
	for k, p := range in.Parts {
		d.Set(k, c02Wrap(in.Kind, p))
	}
	return d
}

func c02ReplayCase(in c02Replay) (bool, string) {
	d := c02Data(in)
	r := tmplx.Run(in.Program, &d)
	if r.Kind != tmplx.OK {
		return false, fmt.Sprintf("program %q: %v %v", in.Program, r.Kind, r.Err)
	}
	fs := c02Judge(r.Out)
	return len(fs) > 0, fmt.Sprintf("program %q parts %q -> %q: %v", in.Program, in.Parts, r.Out, fs)
}

var c02Dangerous = []string{
	"javascript:alert(1)", "JaVaScRiPt:alert(1)", "java\tscript:alert(1)", "java\nscript:x", "java\rscript:x", " javascript:x", "\x01javascript:x",
	"\x1fjavascript:x", "javascript\t:x", "javascript&colon;x", "javascript&#58;x", "&#106;avascript:x", "javascript&#x3a;x", "jav&#x09;ascript:x",
	"jav&Tab;ascript:x", "\tjavascript:x", " javascript:x", "javascript:x//", "\x00javascript:x", "javascript\x00:x",
	"javascript://h.example/%0Aalert(1)", "JAVASCRIPT://h/p?q#f",
	// srcset shapes: every ASCII whitespace / comma / descriptor position around a javascript: candidate
	"/a,\fjavascript:x", "/a \tjavascript:x", "/a 1x,javascript:x", "javascript:x 1x", "/a\f1x,javascript:x", "/a\rjavascript:x", ",javascript:x", "/a ,\njavascript:x 2x",
}

// compositions: how the payload parts reach the attribute value. %P = static prefix, parts go to slots (§) or to the ranged list.
type c02Comp struct {
	name    string
	body    string // attribute value body; §=slot
	nparts  int
	rng     bool
	c, w    []bool
	helpers string
}

func c02Comps() []c02Comp {
	S := tmplx.Slot
	tf, f, t := []bool{true, false}, []bool{false}, []bool{true}
	return []c02Comp{
		{"single", "%P" + S, 1, false, f, f, ""},
		{"adjacent-actions", "%P" + S + S, 2, false, f, f, ""},
		{"three-actions", "%P" + S + S + S, 3, false, f, f, ""},
		{"range", "%P{{range $.L}}{{.}}{{end}}", 2, true, f, f, ""},
		{"range3", "%P{{range $.L}}{{.}}{{end}}", 3, true, f, f, ""},
		{"range-static-colon", "%P{{range $.L}}{{.}}:{{end}}", 2, true, f, f, ""},
		{"range-static-text", "%P{{range $.L}}{{.}}script{{end}}", 2, true, f, f, ""},
		{"action-colon-action", "%P" + S + ":" + S, 2, false, f, f, ""},
		{"if-else-static-then-action", "%P{{if $.C}}{{else}}java{{end}}" + S, 1, false, tf, f, ""},
		{"if-static-then-action", "%P{{if $.C}}java{{end}}" + S, 1, false, tf, f, ""},
		{"if-else-slash-then-action", "%P{{if $.C}}/{{else}}{{end}}" + S, 1, false, tf, f, ""},
		{"with-else-static-then-action", "%P{{with $.W}}{{else}}java{{end}}" + S, 1, false, f, tf, ""},
		{"range-else-static-then-action", "%P{{range $.L}}{{else}}java{{end}}" + S, 1, false, f, f, ""},
		{"action-then-if-action", "%P" + S + "{{if $.C}}" + S + "{{end}}", 2, false, t, f, ""},
		{"helper", "%P{{template \"h\" $}}", 1, false, f, f, `{{define "h"}}` + S + `{{end}}`},
		{"action-then-helper", "%P" + S + "{{template \"h\" $}}", 2, false, f, f, `{{define "h"}}` + S + `{{end}}`},
		{"helper-twice", "%P{{template \"h\" $}}{{template \"h\" $}}", 1, false, f, f, `{{define "h"}}` + S + `{{end}}`},
		// the same single action written with a pipeline, a variable, with / block, or an argument to a helper
		{"pipe-html", "%P{{$.P0 | html}}", 1, false, f, f, ""},
		{"pipe-urlquery", "%P{{$.P0 | urlquery}}", 1, false, f, f, ""},
		{"call-html", "%P{{html $.P0}}", 1, false, f, f, ""},
		{"call-print", "%P{{print $.P0}}", 1, false, f, f, ""},
		{"call-print-two", "%P{{print $.P0 $.P1}}", 2, false, f, f, ""},
		{"call-printf", "%P{{printf \"%s%s\" $.P0 $.P1}}", 2, false, f, f, ""},
		{"variable", "{{$x := $.P0}}%P{{$x}}", 1, false, f, f, ""},
		{"with-dot", "%P{{with $.P0}}{{.}}{{end}}", 1, false, f, f, ""},
		{"helper-with-argument", "%P{{template \"ha\" $.P0}}", 1, false, f, f, `{{define "ha"}}{{.}}{{end}}`},
		{"block", "%P{{block \"blk\" $.P0}}{{.}}{{end}}", 1, false, f, f, ""},
		{"paren-pipe", "%P{{($.P0) | print | html}}", 1, false, f, f, ""},
	}
}

func checkC02(r *core.Run) {
	var programs, accepted, execs, outputs int64
	var structs sync.Map
	var nstructs int64
	elements := []string{"a", "area", "link", "base", "img", "script", "iframe", "frame", "embed", "object", "form", "button", "input", "video", "audio", "source", "track", "blockquote", "q", "body", "div", "svg", "image", "use", "x-custom"}
	attrs := []string{"href", "src", "action", "formaction", "srcset", "cite", "poster", "data", "background", "ping", "manifest", "xlink:href", "longdesc", "codebase", "HREF", "Src",
		"onclick", "onerror", "ONLOAD", "style", "srcdoc", "title", "data-url", "value", "imagesrcset"}
	prefixes := []string{"", "/", "/p?q=", "#", "https://o/", "mailto:", "java", "&#106;ava", "https://o/p#", "JAVASCRIPT", "//o/", "x"}
	quotes := []string{"\"", "'"}
	if !r.Thorough() {
		prefixes = prefixes[:8]
	}
	comps := c02Comps()
	// marker payloads (clauses about where untrusted data lands) and dangerous splits (scheme clause)
	markers := []string{c02Marker, c02Marker + "\"'<>&", "javascript:" + c02Marker, c02Marker + ".css", " " + c02Marker + " onx=1"}
	type job struct {
		el, attr, q, pre string
		comp             c02Comp
		extra            string // extra attributes before (link rel)
		shape            string
	}
	var jobs []job
	for _, el := range elements {
		for _, at := range attrs {
			for _, q := range quotes {
				for _, pre := range prefixes {
					for _, cp := range comps {
						if el == "link" {
							continue
						}
						jobs = append(jobs, job{el, at, q, pre, cp, "", ""})
					}
				}
			}
		}
	}
	// link rel token sets
	relToks := []string{"stylesheet", "alternate", "icon", "preload", "prefetch", "import", "manifest", "modulepreload", "unknown", "STYLESHEET", "author"}
	var rels []string
	rels = append(rels, "")
	for _, a := range relToks {
		rels = append(rels, a)
		for _, b := range relToks {
			if a != b {
				rels = append(rels, a+" "+b, a+"\t"+b)
			}
		}
	}
	for _, rel := range rels {
		for _, q := range quotes {
			for _, pre := range prefixes[:5] {
				for _, cp := range comps[:4] {
					extra := ""
					if rel != "" {
						extra = " rel=" + q + rel + q
					}
					jobs = append(jobs, job{"link", "href", q, pre, cp, extra, "rel-before"})
					if rel != "" && cp.name == "single" {
						jobs = append(jobs, job{"link", "href", q, pre, cp, " REL=" + q + rel + q, "rel-before"})
					}
				}
			}
		}
	}
	// two call sites of one helper with different prefixes; helper first used in another context
	S := tmplx.Slot
	special := []struct {
		name, text string
		parts      []string
		rng        bool
	}{
		{"helper-two-prefixes", `<a href="/x/{{template "h" $}}">1</a><a href="{{template "h" $}}">2</a>{{define "h"}}` + S + `{{end}}`, nil, false},
		{"helper-two-prefixes-rev", `<a href="{{template "h" $}}">1</a><a href="/x/{{template "h" $}}">2</a>{{define "h"}}` + S + `{{end}}`, nil, false},
		{"helper-query-then-start", `<a href="/p?q={{template "h" $}}">1</a><a href="{{template "h" $}}">2</a>{{define "h"}}` + S + `{{end}}`, nil, false},
		{"helper-text-then-href", `<p>{{template "h" $}}</p><a href="{{template "h" $}}">2</a>{{define "h"}}` + S + `{{end}}`, nil, false},
		{"helper-title-then-href", `<a title="{{template "h" $}}" href="{{template "h" $}}">2</a>{{define "h"}}` + S + `{{end}}`, nil, false},
		{"helper-script-src-two-prefixes", `<script src="/x/{{template "h" $}}"></script><script src="{{template "h" $}}"></script>{{define "h"}}` + S + `{{end}}`, nil, false},
		{"helper-img-src-two-prefixes", `<img src="/x/{{template "h" $}}"><img src="{{template "h" $}}">{{define "h"}}` + S + `{{end}}`, nil, false},
		{"link-rel-after-href", `<link href="` + S + `" rel="stylesheet">`, nil, false},
		{"link-rel-dynamic", `<link rel="` + S + ` icon" href="` + S + `">`, []string{"stylesheet", c02Marker}, false},
		{"range-body-switches-attribute", `<a title="{{range $.L}}{{.}}" href="{{end}}x">y</a>`, []string{"t", "javascript:alert(1)"}, true},
		{"range-body-switches-attribute-2", `<img alt="{{range $.L}}{{.}}" src="{{end}}x">`, []string{"t", "javascript:alert(1)", "u"}, true},
		{"range-body-closes-tag", `<a title="{{range $.L}}{{.}}"><script>{{end}}x</script>`, []string{"t", c02Marker}, true},
		{"helper-shared-by-link-icon-and-stylesheet", `{{define "hp"}}{{.}}{{end}}<link rel="icon" href="{{template "hp" $.P0}}"><link rel="stylesheet" href="{{template "hp" $.P1}}">`, []string{"/i.png", c02Marker + ".css"}, false},
		{"helper-shared-by-stylesheet-and-icon", `{{define "hp"}}{{.}}{{end}}<link rel="stylesheet" href="{{template "hp" $.P0}}"><link rel="icon" href="{{template "hp" $.P1}}">`, []string{c02Marker + ".css", "/i.png"}, false},
		{"helper-shared-by-img-and-script-src", `{{define "hp"}}{{.}}{{end}}<img src="{{template "hp" $.P0}}"><script src="{{template "hp" $.P1}}"></script>`, []string{"/i.png", c02Marker + ".css"}, false},
		{"link-rel-dynamic-only", `<link rel="` + S + `" href="` + S + `">`, []string{"stylesheet", c02Marker}, false},
		{"link-rel-twice", `<link rel="stylesheet" rel="icon" href="` + S + `">`, nil, false},
		{"link-rel-conditional", `<link {{if $.C}}rel="icon"{{else}}rel="stylesheet"{{end}} href="` + S + `">`, nil, false},
		{"script-body", `<script>` + S + `</script>`, nil, false},
		{"script-body-string", `<script>var x = "` + S + `";</script>`, nil, false},
		{"style-body", `<style>` + S + `</style>`, nil, false},
		{"style-body-decl", `<style>p{color:` + S + `}</style>`, nil, false},
		{"comment", `<!-- ` + S + ` -->x`, nil, false},
		{"comment-in-attr", `<a title="<!--` + S + `-->">`, nil, false},
		{"script-after-comment-open", `<script><!--<script></script>` + S + `</script>`, nil, false},
		{"textarea-then-script", `<textarea>` + S + `</textarea><script>` + S + `</script>`, nil, false},
		// a recursive helper that ends in another attribute than it starts in (the recursion is never taken at run time)
		{"recursive-helper-ends-in-other-attribute", `{{define "rh"}}` + S + `{{if false}}{{template "rh" $}}{{end}}" title="x{{end}}<a href="{{template "rh" $}}">y</a>`, nil, false},
		{"recursive-helper-ends-in-script", `{{define "rh"}}` + S + `{{if false}}{{template "rh" $}}{{end}}<script>1{{end}}<b>{{template "rh" $}}</script>`, []string{c02Marker}, false},
		// names split over text nodes by constructs that emit nothing
		{"tag-name-in-pieces", `<s{{$x := 1}}cript>` + S + `</script>`, []string{c02Marker}, false},
		{"tag-name-in-pieces", `<s{{if $.C}}{{end}}tyle>` + S + `</style>`, []string{c02Marker}, false},
		{"tag-name-in-pieces", `<s{{if true}} x{{end}}cript>` + S + `</script>`, []string{c02Marker}, false},
		{"tag-name-in-pieces", `<s{{/* c */}}cript>x = "<p>";` + S + `</p></script>`, []string{c02Marker}, false},
		{"attribute-name-in-pieces", `<a title{{if true}}/{{end}}="` + S + `">t</a>`, []string{"zz onmouseover=" + c02Marker + " zz"}, false},
		{"attribute-name-in-pieces", `<a data-x{{$x := 1}}/='` + S + `'>t</a>`, []string{"zz onmouseover=" + c02Marker + " zz"}, false},
		{"attribute-name-in-pieces", `<iframe src{{$x := 1}}doc="` + S + `"></iframe>`, []string{c02Marker}, false},
		{"attribute-name-in-pieces", `<a o{{$x := 1}}nclick="` + S + `">t</a>`, []string{c02Marker}, false},
		// a helper that completes what the static text before the call leaves open, shared by two call sites
		{"helper-completes-prefix", `{{define "rest"}}ipt` + S + `{{end}}<a href="/search/%2{{template "rest" $}}">1</a><a href="javascr{{template "rest" $}}">2</a>`, []string{":alert(1)"}, false},
		{"helper-completes-prefix", `{{define "rest"}}0` + S + `{{end}}<a href="/a%2{{template "rest" $}}">1</a><a href="javascript:{{template "rest" $}}">2</a>`, []string{"alert(1)"}, false},
		{"helper-completes-prefix", `{{define "sch"}}://h/` + S + `{{end}}<a href="https{{template "sch" $}}">1</a><a href="javascript{{template "sch" $}}">2</a>`, []string{"%0aalert(1)"}, false},
		{"helper-completes-prefix", `{{define "c"}}:{{end}}<a href="x{{template "c"}}` + S + `">1</a><a href="javascript{{template "c"}}` + S + `">2</a>`, []string{"alert(1)"}, false},
		{"helper-completes-prefix", `{{define "hp"}}a{{.}}{{end}}<script src="/{{template "hp" $.P0}}"></script><script src="//{{template "hp" $.P1}}"></script>`, []string{"x", c02Marker + ".example"}, false},
		// a static scheme part after an action that renders nothing
		{"scheme-part-after-empty-action", `<a href="` + S + `java` + S + `">x</a>`, []string{"", "script:alert(1)"}, false},
		{"scheme-part-after-empty-action", `<form action="` + S + `javascript` + S + `"></form>`, []string{"", ":alert(1)"}, false},
		{"scheme-part-after-empty-action", `<a href="{{range $.L}}{{end}}java` + S + `">x</a>`, []string{"script:alert(1)"}, false},
		{"scheme-part-after-empty-action", `<a href="{{if false}}` + S + `{{end}}java` + S + `">x</a>`, []string{"x", "script:alert(1)"}, false},
		{"scheme-part-after-empty-action", `<img src="` + S + `jav&#97;` + S + `">`, []string{"", "script:alert(1)"}, false},
		// self-closing syntax and type attributes of script / style elements
		{"self-closing-raw-text-element", `<script/>` + S + `</script>`, []string{c02Marker}, false},
		{"self-closing-raw-text-element", `<script src="/a.js"/><p>` + S + `</p><script>init()</script>`, []string{c02Marker}, false},
		{"self-closing-raw-text-element", `<style media="print"/>` + S + `</style>`, []string{c02Marker}, false},
		// the end tag of a raw-text element spelled inside its own start tag is an attribute name or value there
		{"end-tag-text-inside-start-tag", `<script data-x=</script>` + S + `</script>`, []string{c02Marker}, false},
		{"end-tag-text-inside-start-tag", `<script </script>` + S + `</script>`, []string{c02Marker}, false},
		{"end-tag-text-inside-start-tag", `<script async </script >` + S + `</script>`, []string{c02Marker}, false},
		{"end-tag-text-inside-start-tag", `<style media=</style>` + S + `</style>`, []string{c02Marker}, false},
		{"end-tag-text-inside-start-tag", `<script data-x=a</script>` + S + `</script>`, []string{c02Marker}, false},
		// a callee that ends the attribute it was called in and opens a URL attribute: the static text it wrote there is
		// the prefix of what follows at every call site
		{"callee-ends-attribute-and-opens-url", `{{define "ct"}}" href="ja{{end}}<a title="ja{{template "ct"}}">x</a><a title="/x{{template "ct"}}` + S + `">y</a>`, []string{"vascript:alert(1)"}, false},
		{"callee-ends-attribute-and-opens-url", `{{define "ct"}}" href="java{{end}}<a title="java{{template "ct"}}">x</a><a title="/x?{{template "ct"}}` + S + `">y</a>`, []string{"script:alert(1)"}, false},
		{"callee-ends-attribute-and-opens-url", `{{define "ct"}}' src='ja{{end}}<img alt='ja{{template "ct"}}'><img alt='//{{template "ct"}}` + S + `'>`, []string{"vascript:alert(1)"}, false},
		// text that only looks like the end tag of the raw-text element
		{"end-tag-look-alike", `<script>var s = "</script.>";` + S + `</script>`, []string{c02Marker}, false},
		{"end-tag-look-alike", `<script>var s = "</script-x>";` + S + `</script>`, []string{c02Marker}, false},
		{"end-tag-look-alike", `<style>a{}</style,>` + S + `</style>`, []string{c02Marker}, false},
		{"end-tag-look-alike", `<script>var s = "</scriptx>";` + S + `</script>`, []string{c02Marker}, false},
		{"script-type-attribute", `<script type="text/template">` + S + `</script>`, []string{c02Marker}, false},
		{"script-type-attribute", `<script type="text/javascript" type="text/plain">` + S + `</script>`, []string{c02Marker}, false},
		{"script-type-attribute", `<script type="module">` + S + `</script>`, []string{c02Marker}, false},
		{"script-type-attribute", `{{define "hp"}}{{.}}{{end}}<script type="text/plain">{{template "hp" $.P0}}</script><script>{{template "hp" $.P1}}</script>`, []string{"x", c02Marker}, false},
		// markup declarations that a tokenizer turns into comments
		{"cdata-section-in-html", `<p><![CDATA[` + S + `]]></p>`, nil, false},
		{"cdata-section-in-html", `<![CDATA[` + S + `]]>x`, nil, false},
		{"cdata-section-in-html", `<div><![cdata[x` + S + `]]></div>`, nil, false},
		{"processing-instruction", `<p><?xml ` + S + `?></p>`, nil, false},
		{"bogus-declaration", `<p><!ELEMENT ` + S + `></p>`, nil, false},
		// loop bodies whose re-entry context differs: through a callee, through {{continue}} / {{break}}
		{"range-reentry-through-callee", `{{define "item"}}<li title="{{.}}{{end}}<ul>{{range $.L}}{{template "item" .}}{{else}}<li title="none{{end}}">x</li></ul>`, []string{"zz", "zz onmouseover=" + c02Marker + " zz"}, true},
		{"continue-in-other-context", `{{range $.L}}<p>{{.}}</p><script>{{if eq . "t"}}{{continue}}{{end}}var r = 1;</script>{{end}}`, []string{"t", c02Marker}, true},
		{"break-in-other-context", `{{range $.L}}<p>{{.}}</p><style>{{if eq . "t"}}{{break}}{{end}}p{}</style>{{end}}<b>` + S + `</b>`, []string{"t", c02Marker}, true},
		{"continue-in-attribute", `{{range $.L}}<a onclick="{{if eq . "t"}}{{continue}}{{end}}x()">{{.}}</a>{{end}}`, []string{"t", c02Marker}, true},
		{"range-body-adds-query", `<a href="/p/{{range $.L}}{{.}}?{{end}}">x</a>`, []string{"a", "b&c=d#e"}, true},
		// helpers shared between a plain call site and one with conditional names / another enclosing element
		{"helper-shared-with-conditional-element", `{{define "hp"}}{{.}}{{end}}<img src="{{template "hp" $.P0}}">{{if true}}<script{{else}}<img{{end}} src="{{template "hp" $.P1}}"></script>`, []string{"/i.png", c02Marker + ".js"}, false},
		{"helper-shared-with-conditional-attribute", `{{define "hp"}}{{.}}{{end}}<a title="{{template "hp" $.P0}}">x</a><a {{if true}}href{{else}}title{{end}}="{{template "hp" $.P1}}">y</a>`, []string{"t", "javascript:alert(1)"}, false},
		{"helper-shared-with-script-body", `{{define "hp"}}{{.}}{{end}}<p>{{template "hp" $.P0}}</p><script>{{template "hp" $.P1}}</script>`, []string{"t", c02Marker}, false},
	}
	run := func(prog string, nparts int, rng bool, cs, ws []bool, class string) {
		atomic.AddInt64(&programs, 1)
		text, nslots, ok := tmplx.Build(prog)
		if !ok {
			return
		}
		p, pr := tmplx.Prepare(text)
		if p == nil {
			_ = pr
			return
		}
		firstExec := true
		var tryKind func(parts []string, c, w bool, kind string)
		try := func(parts []string, c, w bool) { tryKind(parts, c, w, "") }
		tryKind = func(parts []string, c, w bool, kind string) {
			in := c02Replay{Program: text, Parts: parts, Range: rng, C: c, W: w, Kind: kind}
			d := c02Data(in)
			if !rng {
				for k := len(parts); k < nslots; k++ {
					d.Set(k, parts[k%len(parts)])
				}
			}
			res := p.Exec(&d)
			atomic.AddInt64(&execs, 1)
			if firstExec {
				firstExec = false
				if res.Kind == tmplx.OK || res.Kind == tmplx.ExecError {
					atomic.AddInt64(&accepted, 1)
				}
			}
			if res.Kind != tmplx.OK {
				return
			}
			atomic.AddInt64(&outputs, 1)
			sg := tmplx.SigOf(tmplx.Tokenize(res.Out, false), true)
			if _, l := structs.LoadOrStore(sg, true); !l {
				atomic.AddInt64(&nstructs, 1)
			}
			for _, f := range c02Judge(res.Out) {
				// confirm on a fresh set (history independence is C06's business, not ours)
				if bad, _ := c02ReplayCase(in); !bad {
					continue
				}
				input, as := text+"\x00"+strings.Join(parts, "\x01"), ""
				if kind != "" {
					input, as = input+"\x02"+kind, " passed as "+kind
				}
				r.Witness(f.clause, class, input, fmt.Sprintf("program %s with parts %q%s (C=%v W=%v): output %s: %s", core.Q(text), parts, as, c, w, core.Q(res.Out), f.detail), in)
			}
		}
		for _, c := range cs {
			for _, w := range ws {
				// rejected programs are rejected for every datum: probe once
				probe := make([]string, nparts)
				for i := range probe {
					probe[i] = tmplx.Inert
				}
				in := c02Replay{Program: text, Parts: probe, Range: rng, C: c, W: w}
				d := c02Data(in)
				if !rng {
					for k := nparts; k < nslots; k++ {
						d.Set(k, tmplx.Inert)
					}
				}
				pr := p.Exec(&d)
				atomic.AddInt64(&execs, 1)
				if pr.Kind == tmplx.Rejected || pr.Kind == tmplx.RejectedEnd || pr.Kind == tmplx.OtherError || pr.Kind == tmplx.Panicked {
					return
				}
				firstExec = false
				atomic.AddInt64(&accepted, 0)
				for _, m := range markers {
					parts := make([]string, nparts)
					for i := range parts {
						parts[i] = m
					}
					try(parts, c, w)
					if nparts == 1 {
						for _, kd := range c02Kinds {
							tryKind(parts, c, w, kd)
						}
					}
					if nparts > 1 {
						parts2 := make([]string, nparts)
						parts2[nparts-1] = m
						try(parts2, c, w)
					}
				}
				for _, dz := range c02Dangerous {
					switch nparts {
					case 1:
						try([]string{dz}, c, w)
						for _, kd := range c02Kinds {
							tryKind([]string{dz}, c, w, kd)
						}
						// the static prefix may supply the beginning
						for i := 1; i < len(dz) && i <= 10; i++ {
							try([]string{dz[i:]}, c, w)
						}
					case 2:
						for i := 0; i <= len(dz); i++ {
							try([]string{dz[:i], dz[i:]}, c, w)
						}
					default:
						if len(dz) > 12 && dz != c02Dangerous[0] && dz != c02Dangerous[2] {
							continue
						}
						for i := 0; i <= len(dz); i++ {
							for j := i; j <= len(dz); j++ {
								try([]string{dz[:i], dz[i:j], dz[j:]}, c, w)
							}
						}
					}
				}
			}
		}
		if !firstExec {
			atomic.AddInt64(&accepted, 1)
		}
	}
	core.ParallelFor(len(jobs), func(i int) {
		if r.Expired() {
			return
		}
		j := jobs[i]
		body := strings.Replace(j.comp.body, "%P", j.pre, 1)
		prog := "<" + j.el + j.extra + " " + j.attr + "=" + j.q + body + j.q + ">" + j.comp.helpers
		cls := "url"
		switch strings.ToLower(j.attr) {
		case "srcset", "imagesrcset":
			cls = "srcset"
		}
		if j.el == "link" {
			cls = "link"
		}
		discr := c02Root[j.comp.name] + ":" + cls
		if r := c02Root[j.comp.name]; r != "multiple-dynamic-parts" && r != "parts-with-static-separator" {
			discr += ":prefix=" + j.pre // the static prefix matters for what a single dynamic part may do
		}
		run(prog, j.comp.nparts, j.comp.rng, j.comp.c, j.comp.w, discr)
	})
	for _, sp := range special {
		if sp.parts != nil {
			text, _, _ := tmplx.Build(sp.text)
			in := c02Replay{Program: text, Parts: sp.parts, Range: sp.rng}
			d := c02Data(in)
			res := tmplx.Run(text, &d)
			atomic.AddInt64(&programs, 1)
			atomic.AddInt64(&execs, 1)
			if res.Kind == tmplx.OK {
				for _, f := range c02Judge(res.Out) {
					r.Witness(f.clause, sp.name, text+"\x00"+strings.Join(sp.parts, "\x01"), fmt.Sprintf("program %s with parts %q: output %s: %s", core.Q(text), sp.parts, core.Q(res.Out), f.detail), in)
				}
			}
			continue
		}
		run(sp.text, 1, false, []bool{true, false}, []bool{false}, sp.name)
	}
	if r.Expired() {
		r.NotExhaustive("internal deadline reached")
	}
	r.Set("states", programs)
	r.Set("transitions", execs)
	r.Set("traces_validated_against_impl", programs)
	r.Set("programs", programs)
	r.Set("programs_accepted", accepted/2)
	r.Set("executions", execs)
	r.Set("successful_outputs_judged", outputs)
	r.Set("distinct_output_structures", nstructs)
	r.Set("space", fmt.Sprintf("%d elements x %d attributes x %d quotings x %d static prefixes x %d compositions + %d link-rel programs + %d special programs; data = %d marker payloads and every split of %d dangerous strings over the actions",
		len(elements), len(attrs), len(quotes), len(prefixes), len(comps), len(rels)*2*5*4, len(special), len(markers), len(c02Dangerous)))
	r.Sample(map[string]interface{}{"program": `<a href="{{$.P0}}{{$.P1}}">`, "parts": []string{"java", "script:alert(1)"}})
	r.Sample(map[string]interface{}{"program": `<img srcset="/p?q={{range $.L}}{{.}}{{end}}">`, "parts": []string{"x, java", "script:x"}})
	r.Assume("O1 tokenizer + character-reference decoding, O2 scheme extraction (WPT-validated), O3 srcset parser decide what a browser sees")
	if nstructs < 10 {
		r.HarnessError("vacuous exploration: %d distinct output structures", nstructs)
	}
}

// c02Root maps a composition to the mechanism it exercises (discriminator of findings).
var c02Root = map[string]string{
	"single":                        "single-action",
	"adjacent-actions":              "multiple-dynamic-parts",
	"three-actions":                 "multiple-dynamic-parts",
	"range":                         "multiple-dynamic-parts",
	"range3":                        "multiple-dynamic-parts",
	"range-static-colon":            "parts-with-static-separator",
	"range-static-text":             "parts-with-static-separator",
	"action-colon-action":           "parts-with-static-separator",
	"if-else-static-then-action":    "ambiguous-static-prefix",
	"if-static-then-action":         "ambiguous-static-prefix",
	"if-else-slash-then-action":     "ambiguous-static-prefix",
	"with-else-static-then-action":  "ambiguous-static-prefix",
	"range-else-static-then-action": "ambiguous-static-prefix",
	"action-then-if-action":         "multiple-dynamic-parts",
	"helper":                        "single-action",
	"action-then-helper":            "multiple-dynamic-parts",
	"helper-twice":                  "multiple-dynamic-parts",
	"pipe-html":                     "single-action",
	"pipe-urlquery":                 "single-action",
	"call-html":                     "single-action",
	"call-print":                    "single-action",
	"call-print-two":                "single-action",
	"call-printf":                   "single-action",
	"variable":                      "single-action",
	"with-dot":                      "single-action",
	"helper-with-argument":          "single-action",
	"block":                         "single-action",
	"paren-pipe":                    "single-action",
}
