package main

import (
	"encoding/json"
	"fmt"
	"path/filepath"
	"strings"
	"sync/atomic"

	"github.com/google/safehtml/template"
	tuc "github.com/google/safehtml/template/uncheckedconversions"

	"verif/internal/core"
	"verif/internal/enum"
)

func init() {
	register("C20", "exploration", checkC20)
	replayers["C20"] = func(raw json.RawMessage) (bool, string) {
		var in struct{ Dir, Src, Filename string }
		json.Unmarshal(raw, &in)
		for _, s := range tsDirSites {
			if s.dir == in.Dir {
				ts, err := s.f(tuc.TrustedSourceFromStringKnownToSatisfyTypeContract(in.Src), in.Filename)
				cl, what := c20Judge(in.Dir, in.Src, in.Filename, ts.String(), err)
				return cl != "", fmt.Sprintf("TrustedSourceFromConstantDir(%q,%q,%q) = %q, %v; %s %s", in.Dir, in.Src, in.Filename, ts.String(), err, cl, what)
			}
		}
		return false, "dir call site not found"
	}
}

func c20Judge(dir, src, fn, res string, err error) (string, string) {
	if err != nil {
		if res != "" {
			return "error-value", fmt.Sprintf("error returned together with non-zero TrustedSource %q", res)
		}
		return "", ""
	}
	base := filepath.Clean(filepath.Join(dir, src))
	if dir == "" && src == "" {
		base = "."
	}
	if strings.ContainsRune(res, filepath.ListSeparator) && !strings.ContainsRune(dir+src, filepath.ListSeparator) {
		return "list-separator", fmt.Sprintf("result %q contains the list separator", res)
	}
	if res == base || (res == "" && base == ".") {
		return "", ""
	}
	// direct child: its directory is the base and its last element is a real name
	// (the statement does not demand that the name equal the filename byte for byte)
	if filepath.Dir(res) == base && filepath.Base(res) != ".." && filepath.Base(res) != "." && filepath.Clean(res) == res {
		return "", ""
	}
	return "escape", fmt.Sprintf("result %q is neither the cleaned constant directory %q nor a direct child of it (filename %q)", res, base, fn)
}

func checkC20(r *core.Run) {
	var evals, accepted int64
	srcs := []string{"", "s", "s/t", ".", "..", "s/..", "/r"}
	eval := func(fn string) {
		for _, site := range tsDirSites {
			for _, src := range srcs {
				atomic.AddInt64(&evals, 1)
				if p, msg := core.Try(func() { site.f(tuc.TrustedSourceFromStringKnownToSatisfyTypeContract(src), fn) }); p {
					r.Witness("panic", "", fn, fmt.Sprintf("TrustedSourceFromConstantDir(%s,%s,%s) panicked: %s", core.Q(site.dir), core.Q(src), core.Q(fn), msg), nil)
					continue
				}
				ts, err := site.f(tuc.TrustedSourceFromStringKnownToSatisfyTypeContract(src), fn)
				if err == nil {
					atomic.AddInt64(&accepted, 1)
				}
				if cl, what := c20Judge(site.dir, src, fn, ts.String(), err); cl != "" {
					r.Witness(cl, "", fn+"\x00"+site.dir+"\x00"+src, fmt.Sprintf("TrustedSourceFromConstantDir(%s,%s,%s): %s", core.Q(site.dir), core.Q(src), core.Q(fn), what),
						map[string]string{"Dir": site.dir, "Src": src, "Filename": fn})
				}
			}
		}
	}
	// hidden state between calls (runs first, sequentially)
	var items []pairItem
	for _, si := range []int{0, len(tsDirSites) / 2, len(tsDirSites) - 1} {
		site := tsDirSites[si]
		for _, src := range []string{"", "s"} {
			for _, fn := range []string{"a", "", ".", "..", "a/b", "/a", ":", "a:b", "a/../b", "\x00", "\u00e9/x", "\u65e5..", "..\u65e5", strings.Repeat("a", 129) + "/x", strings.Repeat("a", 200), strings.Repeat("\u00e9", 64) + ":"} {
				src, fn := src, fn
				items = append(items, pairItem{name: site.dir + "\x00" + src + "\x00" + fn, replay: map[string]interface{}{"Dir": site.dir, "Src": src, "Filename": fn},
					judge: func() (cl, what string) {
						if p, msg := core.Try(func() {
							ts, err := site.f(tuc.TrustedSourceFromStringKnownToSatisfyTypeContract(src), fn)
							cl, what = c20Judge(site.dir, src, fn, ts.String(), err)
						}); p {
							return "panic", "panicked: " + msg
						}
						return cl, what
					}})
			}
		}
	}
	pairLayer(r, items)
	alpha := []string{".", "/", "\\", ":", "\x00", " ", "\t", "a", "~", "*", "∕", "．", "‥", "\n", "%2e", ".."}
	ln := 4
	if r.Thorough() {
		ln = 5
	}
	st := enum.Seqs(alpha, ln, func(s string, _ []int) { eval(s) })
	r.Set("layer_class_strings", fmt.Sprintf("%d symbols, length<=%d: %d filenames x %d dirs x %d srcs", len(alpha), ln, st.States, len(tsDirSites), len(srcs)))
	st2 := enum.Seqs(enum.Bytes256(), 2, func(s string, _ []int) { eval(s); eval(".." + s); eval(s + "..") })
	r.Set("layer_bytes", fmt.Sprintf("all byte strings length<=2, alone and around '..': %d", st2.States*3))
	nl := enum.Long([]string{"a", "\u00e9", "\u65e5", "\U0001F600", "\xff", ".", " "}, []string{"/x", "/../x", ":", "..", "/", "/../../etc/passwd", ":other", "\\x"}, 300, func(s string) { eval(s) })
	r.Set("layer_long", fmt.Sprintf("7 padding units x 8 cores x every padding length 0..300 x 3 placements: %d filenames", nl))
	r.Set("evaluations", evals)
	r.Set("distinct_nontrivial", accepted)
	r.Set("rule", "exhaustive enumeration of filenames per layer x all generated constant dir call sites x srcs; non-trivial = the call succeeded, so the containment clause was evaluated on a real path")
	ts, err := tsDirSites[2].f(tuc.TrustedSourceFromStringKnownToSatisfyTypeContract("s"), ".. ")
	r.Sample(map[string]string{"dir": "a", "src": "s", "filename": ".. ", "result": ts.String(), "err": fmt.Sprint(err)})
	ts, err = tsDirSites[0].f(template.TrustedSource{}, "..")
	r.Sample(map[string]string{"dir": "", "src": "", "filename": "..", "result": ts.String(), "err": fmt.Sprint(err)})
	r.Assume("host OS is Linux: path separator '/', list separator ':'")
}
