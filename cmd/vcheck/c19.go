package main

import (
	"encoding/json"
	"fmt"
	"github.com/google/safehtml/template"
	"go/ast"
	"go/importer"
	"go/parser"
	"go/token"
	"go/types"
	"os"
	"os/exec"
	"path/filepath"
	"regexp"
	"sort"
	"strings"

	"verif/internal/core"
)

func init() {
	register("C19", "exploration", checkC19)
	replayers["C19"] = func(raw json.RawMessage) (bool, string) {
		var in struct{ Source, Expect string }
		json.Unmarshal(raw, &in)
		if in.Source == "" {
			return false, "this finding is about the enumerated API surface, not about one client program: re-run ./run.sh C19 quick"
		}
		res := c19Compile(c19Repo(), []c19Client{{name: "replay", src: in.Source, mustFail: true}})
		if len(res) != 1 {
			return false, "compilation harness failed"
		}
		return res[0].compiled, fmt.Sprintf("client program that must not compile:\n%s\ncompiled=%v\n%s", in.Source, res[0].compiled, res[0].diag)
	}
}

func c19Repo() string {
	if r := os.Getenv("VERIF_REPO"); r != "" {
		return r
	}
	return "/repo"
}

type c19Param struct {
	Name, Type string
	Const      bool // unexported named string type: only untyped constants can be passed from outside
	Variadic   bool
}

type c19Elem struct {
	PtrRecv bool
	Key     string // pkg.Name or pkg.(Recv).Name
	Pkg     string // import path
	Kind    string // func | method | field | var
	Recv    string
	Name    string
	Params  []c19Param
	Results []string
	// GivesConst: the element lets a client name or obtain a value of the unexported constant-only string type
	// (an exported alias of it, or a function result / variable / field of that type)
	GivesConst bool
}

var c19SafeTypes = map[string]bool{
	"github.com/google/safehtml.HTML": true, "github.com/google/safehtml.Script": true, "github.com/google/safehtml.Style": true,
	"github.com/google/safehtml.StyleSheet": true, "github.com/google/safehtml.URL": true, "github.com/google/safehtml.URLSet": true,
	"github.com/google/safehtml.TrustedResourceURL": true, "github.com/google/safehtml.Identifier": true,
	"github.com/google/safehtml/template.TrustedTemplate": true, "github.com/google/safehtml/template.TrustedSource": true,
	"github.com/google/safehtml/template.TrustedFS": true,
}

func c19LoadPkg(fset *token.FileSet, imp types.Importer, dir, path string) (*types.Package, error) {
	pkgs, err := parser.ParseDir(fset, dir, func(fi os.FileInfo) bool { return !strings.HasSuffix(fi.Name(), "_test.go") }, parser.ParseComments)
	if err != nil {
		return nil, err
	}
	for _, p := range pkgs {
		var files []*ast.File
		var names []string
		for n := range p.Files {
			names = append(names, n)
		}
		sort.Strings(names)
		for _, n := range names {
			files = append(files, p.Files[n])
		}
		conf := types.Config{Importer: imp, Error: func(error) {}}
		return conf.Check(path, fset, files, nil)
	}
	return nil, fmt.Errorf("no package in %s", dir)
}

func c19TypeStr(t types.Type) string {
	return types.TypeString(t, func(p *types.Package) string { return p.Path() })
}

func c19IsConstOnly(t types.Type) bool {
	if s, ok := t.(*types.Slice); ok {
		t = s.Elem()
	}
	n, ok := t.(*types.Named)
	if !ok {
		return false
	}
	b, ok := n.Underlying().(*types.Basic)
	return ok && b.Kind() == types.String && !n.Obj().Exported()
}

func c19Surface(pkg *types.Package) []c19Elem {
	var out []c19Elem
	sc := pkg.Scope()
	sig := func(e *c19Elem, s *types.Signature) {
		for i := 0; i < s.Params().Len(); i++ {
			p := s.Params().At(i)
			e.Params = append(e.Params, c19Param{p.Name(), c19TypeStr(p.Type()), c19IsConstOnly(p.Type()), s.Variadic() && i == s.Params().Len()-1})
		}
		for i := 0; i < s.Results().Len(); i++ {
			e.Results = append(e.Results, c19TypeStr(s.Results().At(i).Type()))
			if c19IsConstOnly(types.Unalias(s.Results().At(i).Type())) {
				e.GivesConst = true
			}
		}
	}
	short := pkg.Name()
	for _, name := range sc.Names() {
		obj := sc.Lookup(name)
		if !obj.Exported() {
			continue
		}
		switch o := obj.(type) {
		case *types.Func:
			e := c19Elem{Key: short + "." + name, Pkg: pkg.Path(), Kind: "func", Name: name}
			sig(&e, o.Type().(*types.Signature))
			out = append(out, e)
		case *types.Var:
			out = append(out, c19Elem{Key: short + "." + name, Pkg: pkg.Path(), Kind: "var", Name: name, Results: []string{c19TypeStr(o.Type())}, GivesConst: c19IsConstOnly(types.Unalias(o.Type()))})
		case *types.TypeName:
			if o.IsAlias() && c19IsConstOnly(types.Unalias(o.Type())) {
				// an exported alias makes the unexported constant-only type nameable: T(runtimeString) then compiles
				out = append(out, c19Elem{Key: short + "." + name + " [type alias]", Pkg: pkg.Path(), Kind: "alias", Name: name, Results: []string{c19TypeStr(types.Unalias(o.Type()))}, GivesConst: true})
				continue
			}
			named, ok := types.Unalias(o.Type()).(*types.Named)
			if !ok {
				continue
			}
			for i := 0; i < named.NumMethods(); i++ {
				m := named.Method(i)
				if !m.Exported() {
					continue
				}
				e := c19Elem{Key: short + ".(" + name + ")." + m.Name(), Pkg: pkg.Path(), Kind: "method", Recv: name, Name: m.Name()}
				if rv := m.Type().(*types.Signature).Recv(); rv != nil {
					_, e.PtrRecv = rv.Type().(*types.Pointer)
				}
				sig(&e, m.Type().(*types.Signature))
				out = append(out, e)
			}
			if st, ok := named.Underlying().(*types.Struct); ok {
				for i := 0; i < st.NumFields(); i++ {
					f := st.Field(i)
					if f.Exported() {
						out = append(out, c19Elem{Key: short + ".(" + name + ")." + f.Name() + " [field]", Pkg: pkg.Path(), Kind: "field", Recv: name, Name: f.Name(), Results: []string{c19TypeStr(f.Type())}, GivesConst: c19IsConstOnly(types.Unalias(f.Type()))})
					}
				}
			}
		}
	}
	return out
}

// raw text carriers: parameter types through which a caller can pass arbitrary run-time text
func c19RawParam(t string) bool {
	switch t {
	case "string", "[]string", "[]byte", "interface{}", "any", "[]interface{}", "[]any", "fmt.Stringer", "flag.Value", "io.Reader", "io/fs.FS", "embed.FS", "map[string]string", "error",
		"github.com/google/safehtml.StyleProperties", "*text/template/parse.Tree":
		return true
	}
	return false
}

func c19YieldsTrusted(e c19Elem) bool {
	for _, r := range e.Results {
		r = strings.TrimPrefix(r, "*")
		if c19SafeTypes[r] || r == "github.com/google/safehtml/template.Template" {
			return true
		}
	}
	return false
}

type c19Client struct {
	name     string
	src      string
	mustFail bool
	what     string
	key      string
}

type c19Result struct {
	compiled bool
	diag     string
}

// c19Compile writes the client packages into one scratch module (outside /repo and /verif) and builds them all
// with a single invocation of the real toolchain; the scratch directory is removed afterwards.
func c19Compile(repo string, clients []c19Client) []c19Result {
	dir, err := os.MkdirTemp("", "c19client")
	if err != nil {
		return nil
	}
	defer os.RemoveAll(dir)
	gomod := "module client\n\ngo 1.23\n\nrequire github.com/google/safehtml v0.0.0\n\nrequire golang.org/x/text v0.3.3 // indirect\n\nreplace github.com/google/safehtml => " + repo + "\n"
	os.WriteFile(filepath.Join(dir, "go.mod"), []byte(gomod), 0o644)
	sum, _ := os.ReadFile(filepath.Join(core.Root(), "go.sum"))
	if len(sum) == 0 {
		sum, _ = os.ReadFile("/verif/go.sum")
	}
	os.WriteFile(filepath.Join(dir, "go.sum"), sum, 0o644)
	for i, c := range clients {
		d := filepath.Join(dir, fmt.Sprintf("c%04d", i))
		os.MkdirAll(d, 0o755)
		os.WriteFile(filepath.Join(d, "main.go"), []byte(c.src), 0o644)
	}
	cmd := exec.Command("go", "build", "-gcflags=-e", "./...")
	cmd.Dir = dir
	cmd.Env = append(os.Environ(), "GOFLAGS=-mod=mod", "GOPROXY=off", "GOSUMDB=off", "GOTOOLCHAIN=local")
	out, _ := cmd.CombinedOutput()
	res := make([]c19Result, len(clients))
	for i := range res {
		res[i].compiled = true
	}
	re := regexp.MustCompile(`^(?:\./)?c(\d{4})/main\.go:(\d+):\d+: (.*)$`)
	other := ""
	for _, line := range strings.Split(string(out), "\n") {
		if m := re.FindStringSubmatch(strings.TrimSpace(line)); m != nil {
			var idx int
			fmt.Sscan(strings.TrimLeft(m[1], "0")+"", &idx)
			if m[1] == "0000" {
				idx = 0
			}
			if idx < len(res) {
				res[idx].compiled = false
				res[idx].diag += line + "\n"
			}
		} else if line != "" && !strings.HasPrefix(line, "#") {
			other += line + "\n"
		}
	}
	if other != "" {
		for i := range res {
			res[i].diag += "toolchain: " + other
		}
	}
	return res
}

type c19Reviewed struct {
	// Entries: element key -> class: constant-only | sanitizing | typed | reader | known-finding
	Entries map[string]string `json:"entries"`
}

func checkC19(r *core.Run) {
	repo := c19Repo()
	cwd, _ := os.Getwd()
	os.Chdir(repo)
	fset := token.NewFileSet()
	imp := importer.ForCompiler(fset, "source", nil)
	root, err1 := c19LoadPkg(fset, imp, repo, "github.com/google/safehtml")
	tmpl, err2 := c19LoadPkg(fset, imp, filepath.Join(repo, "template"), "github.com/google/safehtml/template")
	os.Chdir(cwd)
	if root == nil || tmpl == nil {
		r.HarnessError("cannot type-check the packages: %v %v", err1, err2)
		return
	}
	var rev c19Reviewed
	b, err := os.ReadFile(filepath.Join(core.Root(), "policy", "api_surface.json"))
	if err != nil {
		b, err = os.ReadFile("/verif/policy/api_surface.json")
	}
	if err != nil || json.Unmarshal(b, &rev) != nil {
		r.HarnessError("policy/api_surface.json missing or invalid")
		return
	}
	elems := append(c19Surface(root), c19Surface(tmpl)...)
	sort.Slice(elems, func(i, j int) bool { return elems[i].Key < elems[j].Key })
	if os.Getenv("C19_DUMP") != "" {
		for _, e := range elems {
			fmt.Printf("%s\t%v\t%v\n", e.Key, e.Params, e.Results)
		}
	}
	var clients []c19Client
	importOf := func(pkg string) (string, string) {
		if strings.HasSuffix(pkg, "/template") {
			return `"github.com/google/safehtml/template"`, "template"
		}
		return `"github.com/google/safehtml"`, "safehtml"
	}
	actualConst := map[string]bool{}
	seenKeys := map[string]bool{}
	for _, e := range elems {
		seenKeys[e.Key] = true
		class, reviewed := rev.Entries[e.Key]
		// (c) surface diff
		raw := false
		for _, p := range e.Params {
			if c19RawParam(p.Type) || c19RawParam(strings.TrimPrefix(p.Type, "...")) {
				raw = true
			}
		}
		if e.GivesConst {
			r.Witness("constant-type-obtainable", "", e.Key, fmt.Sprintf("%s (%s -> %v) lets a client name or obtain the unexported constant-only string type, so a conversion or call with a run-time string satisfies every constant-only parameter", e.Key, e.Kind, e.Results), nil)
		}
		if reviewed && class == "typed" {
			// reviewed as taking only compile-time or already trusted material: every parameter must still be of such a type
			for _, p := range e.Params {
				t := strings.TrimPrefix(strings.TrimPrefix(p.Type, "..."), "*")
				if !(p.Const || c19SafeTypes[t] || t == "embed.FS") {
					r.Witness("typed-entry-point-weakened", "", e.Key, fmt.Sprintf("%s%v -> %v was reviewed as taking only compile-time embedded or already trusted material; parameter %q of type %s admits run-time content", e.Key, e.Params, e.Results, p.Name, p.Type), nil)
				}
			}
		}
		switch {
		case e.Kind == "field" && (c19SafeTypes[e.Pkg+"."+e.Recv] || e.Recv == "Template") && !reviewed:
			r.Witness("unreviewed-exported-field", "", e.Key, fmt.Sprintf("exported field %s (%v) of a trusted type is not in the reviewed API surface", e.Key, e.Results), nil)
		case e.Kind == "method" && e.PtrRecv && c19SafeTypes[e.Pkg+"."+e.Recv] && !reviewed:
			r.Witness("unreviewed-mutator-method", "", e.Key, fmt.Sprintf("%s%v has a pointer receiver on a trusted type (it can replace the value's contents, e.g. through encoding/json or flag.TextVar) and is not in the reviewed API surface", e.Key, e.Params), nil)
		case (e.Kind == "func" || e.Kind == "method") && c19YieldsTrusted(e) && raw && !reviewed:
			r.Witness("unreviewed-raw-entry-point", "", e.Key, fmt.Sprintf("%s%v returns %v and takes run-time text, but is not in the reviewed API surface", e.Key, e.Params, e.Results), nil)
		case reviewed && class == "known-finding":
			r.Witness("api-surface", e.Key, e.Key, fmt.Sprintf("%s%v -> %v: accepts run-time text / exposes internals (outside the stated rule)", e.Key, e.Params, e.Results), nil)
		}
		// (a) constant-only parameters x argument forms
		for pi, p := range e.Params {
			pk := fmt.Sprintf("%s#%d", e.Key, pi)
			if p.Const {
				actualConst[pk] = true
			}
			if !(p.Const || rev.Entries[pk] == "constant-only") {
				continue
			}
			imps, short := importOf(e.Pkg)
			callee := short + "." + e.Name
			pre := ""
			if e.Kind == "method" {
				pre = "\tvar recv *" + short + "." + e.Recv + "\n"
				if e.Recv != "Template" {
					pre = "\tvar recv " + short + "." + e.Recv + "\n"
				}
				callee = "recv." + e.Name
			}
			args := func(form string) string {
				var as []string
				for qi, q := range e.Params {
					switch {
					case qi == pi:
						as = append(as, form)
					case q.Const:
						as = append(as, `"k"`)
					case q.Variadic:
						// omit
					default:
						as = append(as, "*new("+c19ShortType(q.Type, e.Pkg)+")")
					}
				}
				return strings.Join(as, ", ")
			}
			forms := []struct{ name, decl, expr string }{
				{"literal-constant (control)", "", `"lit"`},
				{"named-untyped-constant (control)", "const k = \"lit\"\n", `k`},
				{"variable", "var v = \"x\"\n", `v`},
				{"typed-constant", "const tc string = \"x\"\n", `tc`},
				{"string-conversion", "var v = \"x\"\n", `string(v)`},
				{"named-string-conversion", "type ns string\nvar v ns = \"x\"\n", `v`},
				{"call-result", "func f() string { return \"x\" }\n", `f()`},
				{"constant-plus-variable", "var v = \"x\"\n", `"a" + v`},
				{"sprint", "", `fmt.Sprint("x")`},
				{"unexported-type-conversion", "", short + `.stringConstant("x")`},
				{"byte-slice-conversion", "var bs = []byte(\"x\")\n", `string(bs)`},
			}
			if p.Variadic {
				forms = append(forms, struct{ name, decl, expr string }{"slice-spread-of-variables", "var vs = []string{\"x\"}\n", `vs...`})
			}
			for fi, f := range forms {
				extra := ""
				if f.name == "sprint" {
					extra = "\t\"fmt\"\n"
				}
				imports2 := imps
				if short == "template" && strings.Contains(args(f.expr), "safehtml.") {
					imports2 += "\n\t\"github.com/google/safehtml\""
				}
				src := fmt.Sprintf("package c\n\nimport (\n%s\t%s\n)\n\n%s\nfunc _() {\n%s\t_ = %s\n\t%s(%s)\n}\n", extra, imports2, f.decl, pre, "0", callee, args(f.expr))
				clients = append(clients, c19Client{name: pk + " " + f.name, src: src, mustFail: fi >= 2, what: fmt.Sprintf("%s parameter %q passed as %s", e.Key, p.Name, f.name), key: pk + "|" + f.name})
			}
		}
	}
	// reviewed constant-only parameters must still be constant-only; reviewed elements may disappear (not a violation)
	for k, class := range rev.Entries {
		if class == "constant-only" && strings.Contains(k, "#") && seenKeys[strings.SplitN(k, "#", 2)[0]] && !actualConst[k] {
			r.Witness("constant-parameter-weakened", "", k, fmt.Sprintf("parameter %s is recorded as constant-only in the reviewed surface but its type now admits non-constant arguments", k), nil)
		}
	}
	// (b) constructing trusted types without a constructor
	type tinfo struct{ pkg, name string }
	var tnames []string
	for k := range c19SafeTypes {
		tnames = append(tnames, k)
	}
	sort.Strings(tnames)
	for _, full := range tnames {
		i := strings.LastIndex(full, ".")
		pkgPath, name := full[:i], full[i+1:]
		imps, short := importOf(pkgPath)
		T := short + "." + name
		var fields []string
		for _, e := range elems {
			if e.Kind == "field" && e.Pkg == pkgPath && e.Recv == name {
				fields = append(fields, e.Name)
			}
		}
		mk := func(form, body string, mustFail bool) {
			src := fmt.Sprintf("package c\n\nimport (\n\t%s\n)\n\nvar s = \"x\"\n\n%s\n", imps, body)
			clients = append(clients, c19Client{name: T + " " + form, src: src, mustFail: mustFail, what: "constructing " + T + " by " + form, key: T + "|" + form})
		}
		mk("zero value (control)", "var _ "+T, false)
		mk("conversion from string", "var _ = "+T+"(s)", true)
		mk("unkeyed composite literal", "var _ = "+T+"{s}", true)
		mk("keyed literal with unexported field str", "var _ = "+T+"{str: s}", true)
		mk("keyed literal with unexported field src", "var _ = "+T+"{src: s}", true)
		mk("keyed literal with unexported field tmpl", "var _ = "+T+"{tmpl: s}", true)
		mk("conversion from a look-alike struct", "type fake struct{ str string }\nvar _ = "+T+"(fake{s})", true)
		mk("unsafe-free pointer cast", "type fake struct{ str string }\nvar f = fake{s}\nvar _ = (*"+T+")(&f)", true)
		for _, f := range fields {
			mk("keyed literal with exported field "+f, "var v "+T+"\nfunc _() { _ = v."+f+" }\nvar _ = "+T+"{"+f+": nil}", true)
		}
	}
	// type inference (Go 1.18+): a generic function can name the unexported constant type through a type parameter
	for _, g := range []struct{ key, imps, body string }{
		{"safehtml.ScriptFromConstant|generic-type-inference", "\"github.com/google/safehtml\"", "func conv[T ~string, R any](f func(T) R, s string) R { return f(T(s)) }\nvar _ = conv(safehtml.ScriptFromConstant, s)"},
		{"template.MakeTrustedTemplate|generic-type-inference", "\"github.com/google/safehtml/template\"", "func conv[T ~string, R any](f func(T) R, s string) R { return f(T(s)) }\nvar _ = conv(template.MakeTrustedTemplate, s)"},
		{"template.(*Template).Parse|generic-type-inference-method-value", "\"github.com/google/safehtml/template\"", "func conv[T ~string, R any](f func(T) (R, error), s string) (R, error) { return f(T(s)) }\nvar _, _ = conv(template.New(\"x\").Parse, s)"},
		{"safehtml.TrustedResourceURLFormatFromConstant|generic-type-inference", "\"github.com/google/safehtml\"", "func conv[T ~string, A, R any](f func(T, A) (R, error), s string) (R, error) { var a A; return f(T(s), a) }\nvar _, _ = conv(safehtml.TrustedResourceURLFormatFromConstant, s)"},
	} {
		src := fmt.Sprintf("package c\n\nimport (\n\t%s\n)\n\nvar s = \"x\"\n\n%s\n", g.imps, g.body)
		clients = append(clients, c19Client{name: g.key, src: src, mustFail: true, what: "passing a run-time string through a generic function whose type parameter is inferred as the unexported constant type", key: g.key})
	}
	// conversions between trusted types: T2(valueOfT1) must not compile for distinct T1, T2
	for _, f1 := range tnames {
		for _, f2 := range tnames {
			if f1 == f2 {
				continue
			}
			i1, i2 := strings.LastIndex(f1, "."), strings.LastIndex(f2, ".")
			_, s1 := importOf(f1[:i1])
			_, s2 := importOf(f2[:i2])
			imps := "\"github.com/google/safehtml\"\n\t\"github.com/google/safehtml/template\""
			src := fmt.Sprintf("package c\n\nimport (\n\t%s\n)\n\nvar _ = safehtml.HTML{}\nvar _ = template.TrustedSource{}\nvar a %s.%s\nvar _ = %s.%s(a)\n", imps, s1, f1[i1+1:], s2, f2[i2+1:])
			pkgPair := s1 + "->" + s2
			clients = append(clients, c19Client{name: "convert " + f1 + " to " + f2, src: src, mustFail: true, what: fmt.Sprintf("converting a %s.%s to %s.%s", s1, f1[i1+1:], s2, f2[i2+1:]), key: "conversion " + pkgPair + "|" + s1 + "." + f1[i1+1:] + "->" + s2 + "." + f2[i2+1:]})
		}
	}
	res := c19Compile(repo, clients)
	if len(res) != len(clients) {
		r.HarnessError("client compilation failed")
		return
	}
	var failedOK, compiledOK int64
	for i, c := range clients {
		switch {
		case c.mustFail && res[i].compiled && strings.HasPrefix(c.key, "conversion "):
			parts := strings.SplitN(strings.TrimPrefix(c.key, "conversion "), "|", 2)
			r.Witness("trusted-type-conversion", parts[0], parts[1], c.what+": the client program compiles (the two struct types have identical underlying types)\n"+c.src, map[string]string{"Source": c.src, "Expect": "must-not-compile"})
		case c.mustFail && res[i].compiled && strings.Contains(c.key, "|generic-type-inference"):
			r.Witness("non-constant-accepted", "generic-type-inference", c.key, c.what+": the client program compiles\n"+c.src, map[string]string{"Source": c.src, "Expect": "must-not-compile"})
		case c.mustFail && res[i].compiled:
			r.Witness("non-constant-accepted", "", c.key, c.what+": the client program compiles\n"+c.src, map[string]string{"Source": c.src, "Expect": "must-not-compile"})
		case !c.mustFail && !res[i].compiled:
			r.HarnessError("control program does not compile (%s): %s", c.name, res[i].diag)
		case c.mustFail:
			failedOK++
		default:
			compiledOK++
		}
	}
	// zero values of the trusted types, which any client can write, must not grant anything: in particular the zero
	// TrustedFS / TrustedSource must not give access to files named by run-time strings
	zeroProbes := []struct {
		name string
		f    func() error
	}{
		{"ParseFS(TrustedFS{}, name)", func() error { _, err := template.ParseFS(template.TrustedFS{}, "fixtures/hist/a.tmpl"); return err }},
		{"(*Template).ParseFS(TrustedFS{}, pattern)", func() error {
			_, err := template.New("x").ParseFS(template.TrustedFS{}, "fixtures/hist/*.tmpl")
			return err
		}},
		{"ParseFS(TrustedFS{}.Sub(constant dir), name)", func() error {
			sub, err := template.TrustedFS{}.Sub(template.TrustedSourceFromConstant("fixtures"))
			if err != nil {
				return err
			}
			_, err = template.ParseFS(sub, "hist/a.tmpl")
			return err
		}},
		{"ParseFS(TrustedFSFromTrustedSource(TrustedSource{}), name)", func() error {
			_, err := template.ParseFS(template.TrustedFSFromTrustedSource(template.TrustedSource{}), "fixtures/hist/a.tmpl")
			return err
		}},
		{"ParseFilesFromTrustedSources(TrustedSource{})", func() error { _, err := template.ParseFilesFromTrustedSources(template.TrustedSource{}); return err }},
		{"TrustedSourceJoin(TrustedSource{}) then ParseFiles", func() error {
			_, err := template.ParseFilesFromTrustedSources(template.TrustedSourceJoin(template.TrustedSource{}, template.TrustedSource{}))
			return err
		}},
	}
	for _, zp := range zeroProbes {
		var err error
		if p, msg := core.Try(func() { err = zp.f() }); p {
			r.Witness("zero-value-grants-access", "", zp.name, zp.name+" panicked: "+msg, nil)
		} else if err == nil {
			r.Witness("zero-value-grants-access", "", zp.name, zp.name+" succeeded: the zero value of a trusted type gives access to files chosen by a run-time string", nil)
		}
	}
	r.Set("zero_value_probes", len(zeroProbes))
	r.Set("evaluations", int64(len(clients)+len(elems)))
	r.Set("distinct_nontrivial", failedOK)
	r.Set("programs", int64(len(clients)))
	r.Set("client_programs_rejected_by_the_compiler_as_required", failedOK)
	r.Set("control_programs_compiled", compiledOK)
	r.Set("api_elements_enumerated", len(elems))
	r.Set("rule", "every exported function/method/field/var of packages safehtml and safehtml/template is enumerated with go/types; for every constant-only parameter 11-12 argument forms, and for every trusted type 8+ construction forms, one client package each is generated and all are compiled by the real toolchain (go build -gcflags=-e); non-trivial = a generated program that must not compile and is rejected")
	if len(clients) > 3 {
		r.Sample(map[string]string{"what": clients[2].what, "source": clients[2].src})
		r.Sample(map[string]string{"what": clients[len(clients)-2].what, "source": clients[len(clients)-2].src})
	}
	r.Assume("the Go type checker of the installed toolchain decides 'does not compile'; the reviewed surface is policy/api_surface.json")
}

// c19ShortType renders a parameter type as client source (package-qualified with short names).
func c19ShortType(t, pkg string) string {
	t = strings.ReplaceAll(t, "github.com/google/safehtml/template.", "template.")
	t = strings.ReplaceAll(t, "github.com/google/safehtml.", "safehtml.")
	t = strings.ReplaceAll(t, "text/template/parse.", "parse.")
	t = strings.ReplaceAll(t, "io/fs.", "fs.")
	return t
}
