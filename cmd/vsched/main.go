// Command vsched explores thread schedules of concurrent template execution
// under the controlled scheduler in package verifsync. It only builds with the
// overlay produced by sched/build.sh.
package main

import (
	"bytes"
	"encoding/json"
	"flag"
	"fmt"
	"os"
	"sort"
	"strings"
	"sync"
	"time"

	"github.com/google/safehtml/template"
	tuc "github.com/google/safehtml/template/uncheckedconversions"
	vs "github.com/google/safehtml/verifsync"
)

type call struct {
	Kind string // exec | execroot | tohtml | lookup | templates | name | defined
	Name string
	Data int
}

func (c call) String() string {
	switch c.Kind {
	case "exec":
		return fmt.Sprintf("ExecuteTemplate(%q,d%d)", c.Name, c.Data)
	case "tohtml":
		return fmt.Sprintf("ExecuteTemplateToHTML(%q,d%d)", c.Name, c.Data)
	case "execroot":
		return fmt.Sprintf("Execute(d%d)", c.Data)
	case "roottohtml":
		return fmt.Sprintf("ExecuteToHTML(d%d)", c.Data)
	case "lookup":
		return fmt.Sprintf("Lookup(%q)", c.Name)
	}
	return c.Kind + "()"
}

type scenario struct {
	Name    string
	Defs    string
	Threads [][]call
}

// D is the data value; its method Y is a scheduling point inside template execution (also inside the
// *ToHTML forms, whose output buffer is internal), so executions can interleave at node granularity.
type D struct{ S string }

func (d D) Y() string {
	vs.Yield(vs.KWrite)
	return ""
}

var data = []interface{}{
	D{"<x>&\"'"},
	D{"javascript:alert(1)"},
	&D{"<p>&"},
	&PS{S: newStr("<q>&")},
}

// PS has a pointer-typed field, so that the sanitizers receive a pointer (they dereference it by reflection).
type PS struct{ S *string }

func (d *PS) Y() string {
	vs.Yield(vs.KWrite)
	return ""
}

func newStr(s string) *string { return &s }

const baseDefs = `{{define "h"}}{{.Y}}{{.S}}{{.Y}}{{end}}` +
	`{{define "a"}}<p>{{template "h" .}}</p>{{end}}` +
	`{{define "b"}}<a title="{{template "h" .}}">t</a>{{end}}` +
	`{{define "c"}}<a href="{{template "h" .}}">t</a>{{end}}` +
	`{{define "bad"}}<a {{if .S}}title="x{{end}}>{{end}}` +
	`{{define "cb"}}<i>{{template "bad" .}}</i>{{end}}` +
	`{{define "hs"}}{{.Y}}{{if has "a"}}<i>{{.S}}</i>{{end}}{{names}}{{.Y}}{{end}}` +
	`{{define "q"}}<a href="/p?q={{.S}}">{{.Y}}<a href="{{.S}}">t</a>{{end}}` +
	`{{define "op"}}<b title="{{.S}}{{end}}{{define "pg"}}{{template "op" .}} tail">{{.Y}}x</b>{{end}}` +
	`{{define "row"}}<td title=a"b>{{.S}}</td>{{end}}{{define "tbl"}}{{.Y}}{{template "row" .}}{{end}}{{define "lst"}}{{.Y}}{{range .L}}{{template "row" $}}{{end}}{{end}}` +
	`ROOT{{template "a" .}}`

func scenarios() []scenario {
	reader := []call{{Kind: "lookup", Name: "h"}, {Kind: "defined"}}
	return []scenario{
		{"S1-first-executions-and-reader", baseDefs, [][]call{
			{{Kind: "exec", Name: "a", Data: 0}},
			{{Kind: "exec", Name: "b", Data: 0}},
			{{Kind: "templates"}, {Kind: "name"}, {Kind: "defined"}},
		}},
		{"S2-mixed-forms-repeated", baseDefs, [][]call{
			{{Kind: "execroot", Data: 0}, {Kind: "execroot", Data: 1}},
			{{Kind: "exec", Name: "h", Data: 0}},
			{{Kind: "roottohtml", Data: 1}, {Kind: "tohtml", Name: "c", Data: 1}},
		}},
		{"S3-failing-first-execution", baseDefs, [][]call{
			{{Kind: "exec", Name: "bad", Data: 0}},
			{{Kind: "exec", Name: "cb", Data: 0}},
			reader,
		}},
		{"S4-same-template-twice", baseDefs, [][]call{
			{{Kind: "exec", Name: "b", Data: 0}},
			{{Kind: "exec", Name: "b", Data: 1}},
		}},
		{"S6-failing-tohtml-then-overlapping-tohtml", baseDefs, [][]call{
			{{Kind: "tohtml", Name: "bad", Data: 0}, {Kind: "tohtml", Name: "a", Data: 0}},
			{{Kind: "tohtml", Name: "b", Data: 1}},
			{{Kind: "roottohtml", Data: 0}},
		}},
		{"S8-failing-root-first-executions", strings.Replace(baseDefs, `ROOT{{template "a" .}}`, `ROOT{{template "cb" .}}`, 1), [][]call{
			{{Kind: "execroot", Data: 0}},
			{{Kind: "roottohtml", Data: 0}, {Kind: "execroot", Data: 1}},
			{{Kind: "exec", Name: "cb", Data: 0}},
		}},
		{"S9-pointer-data", baseDefs, [][]call{
			{{Kind: "exec", Name: "a", Data: 3}},
			{{Kind: "tohtml", Name: "b", Data: 3}, {Kind: "exec", Name: "c", Data: 2}},
			{{Kind: "execroot", Data: 3}},
		}},
		{"S10-lookup-from-a-function-during-execution", baseDefs, [][]call{
			{{Kind: "exec", Name: "hs", Data: 0}},
			{{Kind: "exec", Name: "b", Data: 0}},
			{{Kind: "tohtml", Name: "hs", Data: 1}},
		}},
		{"S11-url-escaping-in-parallel", baseDefs, [][]call{
			{{Kind: "exec", Name: "q", Data: 0}},
			{{Kind: "tohtml", Name: "q", Data: 0}},
			{{Kind: "exec", Name: "q", Data: 2}},
		}},
		{"S12-templates-after-execution", baseDefs, [][]call{
			{{Kind: "exec", Name: "a", Data: 0}, {Kind: "templates"}},
			{{Kind: "templates"}, {Kind: "templates"}},
			{{Kind: "exec", Name: "b", Data: 0}, {Kind: "templates"}, {Kind: "lookup", Name: "h"}},
		}},
		{"S13-fragment-fails-on-its-own-while-its-caller-runs", baseDefs, [][]call{
			{{Kind: "exec", Name: "pg", Data: 0}, {Kind: "exec", Name: "pg", Data: 0}},
			{{Kind: "exec", Name: "op", Data: 0}},
			{{Kind: "tohtml", Name: "pg", Data: 1}},
		}},
		{"S14-broken-callee-on-its-own-and-through-two-callers", baseDefs, [][]call{
			{{Kind: "exec", Name: "row", Data: 0}, {Kind: "exec", Name: "row", Data: 1}},
			{{Kind: "exec", Name: "tbl", Data: 0}},
			{{Kind: "tohtml", Name: "lst", Data: 0}},
		}},
		{"S7-execute-same-root-first-and-repeated", baseDefs, [][]call{
			{{Kind: "execroot", Data: 0}},
			{{Kind: "execroot", Data: 1}, {Kind: "execroot", Data: 0}},
		}},
		{"S5-three-writers", baseDefs, [][]call{
			{{Kind: "exec", Name: "a", Data: 0}},
			{{Kind: "exec", Name: "c", Data: 1}},
			{{Kind: "tohtml", Name: "b", Data: 0}},
		}},
	}
}

type yieldWriter struct{ buf bytes.Buffer }

func (w *yieldWriter) Write(p []byte) (int, error) {
	vs.Yield(vs.KWrite)
	return w.buf.Write(p)
}

func build(sc *scenario) *template.Template {
	var root *template.Template
	// has / names call back into the set while one of its templates is executing
	root = template.New("root").Funcs(template.FuncMap{
		"has":   func(name string) bool { return root.Lookup(name) != nil },
		"names": func() int { return len(root.Templates()) },
	})
	t, err := root.ParseFromTrustedTemplate(tuc.TrustedTemplateFromStringKnownToSatisfyTypeContract(sc.Defs))
	if err != nil {
		panic(err)
	}
	return t
}

func doCall(t *template.Template, c call) (res string) {
	defer func() {
		if r := recover(); r != nil {
			res = "PANIC: " + fmt.Sprint(r)
		}
	}()
	vs.Yield(vs.KCall)
	fmtErr := func(out string, err error) string {
		if err != nil {
			// the error is part of what a call returns: under every schedule it must be one that some sequential order gives
			return out + " ERR: " + err.Error()
		}
		return out
	}
	switch c.Kind {
	case "exec":
		var w yieldWriter
		err := t.ExecuteTemplate(&w, c.Name, data[c.Data])
		return fmtErr(w.buf.String(), err)
	case "execroot":
		var w yieldWriter
		err := t.Execute(&w, data[c.Data])
		return fmtErr(w.buf.String(), err)
	case "tohtml":
		h, err := t.ExecuteTemplateToHTML(c.Name, data[c.Data])
		return fmtErr(h.String(), err)
	case "roottohtml":
		h, err := t.ExecuteToHTML(data[c.Data])
		return fmtErr(h.String(), err)
	case "parsefiles":
		_, err := t.ParseFiles("fixtures/hist/a.tmpl", "fixtures/hist/b.tmpl")
		return fmtErr("parsed", err)
	case "parse":
		_, err := t.ParseFromTrustedTemplate(tuc.TrustedTemplateFromStringKnownToSatisfyTypeContract(`{{define "a"}}<i>{{.S}}</i>{{end}}`))
		return fmtErr("parsed", err)
	case "clone":
		c, err := t.Clone()
		if err != nil {
			return "clone ERR"
		}
		var w bytes.Buffer
		err = c.ExecuteTemplate(&w, "a", data[0])
		return fmtErr("clone:"+w.String(), err)
	case "lookup":
		if t.Lookup(c.Name) == nil {
			return "nil"
		}
		return "found"
	case "templates":
		// the slice belongs to the caller: sort it in place, as callers that want a stable order do
		ts := t.Templates()
		sort.Slice(ts, func(i, j int) bool { return ts[i].Name() < ts[j].Name() })
		var names []string
		for _, x := range ts {
			names = append(names, x.Name())
		}
		return strings.Join(names, ",")
	case "name":
		return t.Name()
	case "defined":
		s := t.DefinedTemplates()
		s = strings.TrimPrefix(s, "; defined templates are: ")
		parts := strings.Split(s, ", ")
		sort.Strings(parts)
		return strings.Join(parts, ",")
	}
	return "?"
}

// bodies returns the thread bodies over a fresh set; results are written into res[thread][i].
func bodies(sc *scenario, t *template.Template, res [][]string) []func() {
	var bs []func()
	for ti := range sc.Threads {
		ti := ti
		bs = append(bs, func() {
			for ci, c := range sc.Threads[ti] {
				res[ti][ci] = doCall(t, c)
			}
		})
	}
	return bs
}

func newRes(sc *scenario) [][]string {
	res := make([][]string, len(sc.Threads))
	for i := range res {
		res[i] = make([]string, len(sc.Threads[i]))
	}
	return res
}

func vecKey(res [][]string) string {
	b, _ := json.Marshal(res)
	return string(b)
}

// sequentialVectors: result vectors of every sequential order of the calls that respects each thread's program order.
func sequentialVectors(sc *scenario) map[string]bool {
	out := map[string]bool{}
	idx := make([]int, len(sc.Threads))
	var order [][2]int
	total := 0
	for _, th := range sc.Threads {
		total += len(th)
	}
	var rec func()
	rec = func() {
		if len(order) == total {
			t := build(sc)
			res := newRes(sc)
			for _, o := range order {
				res[o[0]][o[1]] = doCall(t, sc.Threads[o[0]][o[1]])
			}
			out[vecKey(res)] = true
			return
		}
		for ti := range sc.Threads {
			if idx[ti] < len(sc.Threads[ti]) {
				order = append(order, [2]int{ti, idx[ti]})
				idx[ti]++
				rec()
				idx[ti]--
				order = order[:len(order)-1]
			}
		}
	}
	rec()
	return out
}

type execution struct {
	res    vs.Result
	vector string
	rvec   [][]string
}

func runOnce(sc *scenario, sched []int8) execution {
	t := build(sc)
	res := newRes(sc)
	r := vs.Run(bodies(sc, t, res), sched)
	return execution{res: r, vector: vecKey(res), rvec: res}
}

type violation struct {
	Kind     string   `json:"kind"`
	Schedule []int8   `json:"schedule"`
	Detail   string   `json:"detail"`
	Threads  []string `json:"threads,omitempty"`
}

type raceRep struct {
	ScheduleIndex int64  `json:"schedule_index"`
	Schedule      []int8 `json:"schedule"`
	Text          string `json:"text"`
}

type report struct {
	Scenario        string      `json:"scenario"`
	Race            bool        `json:"race_build"`
	Bound           int         `json:"preemption_bound"`
	Schedules       int64       `json:"schedules"`
	Decisions       int64       `json:"decisions"`
	MaxPoints       int         `json:"max_points_per_execution"`
	DistinctVectors int         `json:"distinct_result_vectors"`
	SeqVectors      int         `json:"sequential_result_vectors"`
	ReplaysChecked  int         `json:"replays_checked_identical"`
	Violations      []violation `json:"violations"`
	Races           []raceRep   `json:"races"`
	Capped          bool        `json:"capped"`
	PerBound        []int64     `json:"schedules_per_bound"`
	SampleSchedule  []int8      `json:"sample_schedule"`
	SampleVector    string      `json:"sample_vector"`
	WallS           float64     `json:"wall_s"`
}

func raceLogSize() int64 {
	p := os.Getenv("VSCHED_RACE_LOG")
	if p == "" {
		return 0
	}
	fi, err := os.Stat(fmt.Sprintf("%s.%d", p, os.Getpid()))
	if err != nil {
		return 0
	}
	return fi.Size()
}

func raceLogTail(from int64) string {
	p := os.Getenv("VSCHED_RACE_LOG")
	b, err := os.ReadFile(fmt.Sprintf("%s.%d", p, os.Getpid()))
	if err != nil || int64(len(b)) <= from {
		return ""
	}
	return string(b[from:])
}

func main() {
	scName := flag.String("scenario", "", "scenario name")
	bound := flag.Int("bound", 2, "preemption bound")
	budget := flag.Int("budget", 120, "seconds")
	replayS := flag.String("replay", "", "comma separated schedule to replay once (prints the result vector)")
	list := flag.Bool("list", false, "list scenarios")
	free := flag.Int("free", 0, "free-running cross-check: run the thread bodies N times as ordinary goroutines (no controlled scheduler)")
	flag.Parse()
	scs := scenarios()
	if *list {
		for _, s := range scs {
			fmt.Println(s.Name)
		}
		return
	}
	var sc *scenario
	for i := range scs {
		if scs[i].Name == *scName {
			sc = &scs[i]
		}
	}
	if sc == nil {
		fmt.Fprintln(os.Stderr, "unknown scenario")
		os.Exit(2)
	}
	if *free > 0 {
		// The free-running pass starts in a cold process: state that the library initialises on first use
		// (caches keyed by type, pools) is first touched by concurrent calls, as it would be in a server. The
		// sequential reference vectors are computed afterwards.
		start := time.Now()
		rep := report{Scenario: sc.Name, Race: os.Getenv("VSCHED_RACE_LOG") != "", Bound: -1}
		vectors := map[string]bool{}
		lastLog := raceLogSize()
		for i := 0; i < *free; i++ {
			t := build(sc)
			res := newRes(sc)
			var wg sync.WaitGroup
			for _, b := range bodies(sc, t, res) {
				wg.Add(1)
				go func(b func()) { defer wg.Done(); b() }(b)
			}
			wg.Wait()
			rep.Schedules++
			vectors[vecKey(res)] = true
			if sz := raceLogSize(); sz > lastLog {
				rep.Races = append(rep.Races, raceRep{int64(i), nil, raceLogTail(lastLog)})
				lastLog = sz
			}
		}
		seq := sequentialVectors(sc)
		rep.SeqVectors = len(seq)
		var vs []string
		for v := range vectors {
			vs = append(vs, v)
		}
		sort.Strings(vs)
		for _, v := range vs {
			if !seq[v] && len(rep.Violations) < 3 {
				rep.Violations = append(rep.Violations, violation{Kind: "not-sequential", Detail: "free-running execution: result vector " + v + " is not produced by any sequential order"})
			}
		}
		rep.DistinctVectors = len(vectors)
		rep.WallS = time.Since(start).Seconds()
		b, _ := json.Marshal(rep)
		fmt.Println(string(b))
		return
	}
	seq := sequentialVectors(sc)
	if *replayS != "" {
		var sched []int8
		for _, f := range strings.Split(*replayS, ",") {
			var v int
			fmt.Sscan(f, &v)
			sched = append(sched, int8(v))
		}
		x := runOnce(sc, sched)
		fmt.Printf("vector=%s sequential=%v deadlock=%v\n", x.vector, seq[x.vector], x.res.Deadlock)
		if !seq[x.vector] || x.res.Deadlock {
			os.Exit(1)
		}
		return
	}
	start := time.Now()
	deadline := start.Add(time.Duration(*budget) * time.Second)
	rep := report{Scenario: sc.Name, Bound: *bound, SeqVectors: len(seq), Race: os.Getenv("VSCHED_RACE_LOG") != ""}
	vectors := map[string]bool{}
	rep.PerBound = make([]int64, *bound+1)
	lastLog := raceLogSize()
	var threadsDesc []string
	for ti, th := range sc.Threads {
		var cs []string
		for _, c := range th {
			cs = append(cs, c.String())
		}
		threadsDesc = append(threadsDesc, fmt.Sprintf("T%d: %s", ti, strings.Join(cs, "; ")))
	}
	seenViol := map[string]bool{}
	compromised := false
	check := func(x execution, sched []int8) {
		rep.Schedules++
		rep.Decisions += int64(len(x.res.Trace))
		if len(x.res.Trace) > rep.MaxPoints {
			rep.MaxPoints = len(x.res.Trace)
		}
		vectors[x.vector] = true
		if rep.SampleSchedule == nil && len(sched) > 2 {
			rep.SampleSchedule, rep.SampleVector = append([]int8{}, sched...), x.vector
		}
		add := func(kind, detail string) {
			k := kind + "|" + detail
			if seenViol[k] {
				return
			}
			seenViol[k] = true
			rep.Violations = append(rep.Violations, violation{kind, append([]int8{}, sched...), detail, threadsDesc})
		}
		if x.res.Deadlock {
			add("deadlock", "no enabled thread while some thread is unfinished")
			compromised = true // the aborted threads of this execution may still hold real locks
		}
		if x.res.Overflow {
			add("harness", "trace overflow")
		}
		if x.res.BadChoice {
			add("harness", "schedule prefix diverged (choice out of range)")
		}
		if strings.Contains(x.vector, "PANIC") && !x.res.Deadlock {
			add("panic", x.vector)
		}
		if !x.res.Deadlock && !seq[x.vector] && !strings.Contains(x.vector, "PANIC") {
			add("not-sequential", "result vector "+x.vector+" is not produced by any sequential order of the same calls")
		}
		if sz := raceLogSize(); sz > lastLog {
			rep.Races = append(rep.Races, raceRep{rep.Schedules - 1, append([]int8{}, sched...), raceLogTail(lastLog)})
			lastLog = sz
		}
		// determinism: replay the first 100 schedules
		if rep.Schedules <= 100 && !compromised {
			y := runOnce(sc, sched)
			if y.vector != x.vector || len(y.res.Trace) != len(x.res.Trace) {
				add("harness", "replay of the same schedule diverged")
			} else {
				rep.ReplaysChecked++
			}
			if sz := raceLogSize(); sz > lastLog {
				rep.Races = append(rep.Races, raceRep{rep.Schedules - 1, append([]int8{}, sched...), raceLogTail(lastLog)})
				lastLog = sz
			}
		}
	}
	// iterative preemption bounding: DFS, a schedule with k preemptions is explored when k <= bound
	var explore func(prefix []int8, preBefore int)
	explore = func(prefix []int8, preBefore int) {
		if time.Now().After(deadline) {
			rep.Capped = true
			return
		}
		x := runOnce(sc, prefix)
		// the schedule actually taken
		taken := make([]int8, len(x.res.Trace))
		for i, p := range x.res.Trace {
			taken[i] = p.Choice
		}
		check(x, taken)
		pre := preBefore
		rep.PerBound[min(pre, *bound)]++
		// preemptions along the taken path up to each point
		cost := make([]int, len(x.res.Trace)+1)
		c := 0
		for i, p := range x.res.Trace {
			cost[i] = c
			if p.RunEn && p.Choice != 0 {
				c++
			}
		}
		for i := len(prefix); i < len(x.res.Trace); i++ {
			p := x.res.Trace[i]
			for alt := 1; alt < int(p.NEn); alt++ {
				k := cost[i]
				if p.RunEn {
					k++
				}
				if k > *bound {
					continue
				}
				np := append(append([]int8{}, taken[:i]...), int8(alt))
				explore(np, k)
			}
		}
	}
	explore(nil, 0)
	rep.DistinctVectors = len(vectors)
	rep.WallS = time.Since(start).Seconds()
	b, _ := json.Marshal(rep)
	fmt.Println(string(b))
}
